package c08

import (
	"context"
	"encoding/json"
	"fmt"
	"sort"
	"strings"
	"testing"

	zed "github.com/brimdata/super"
	"github.com/brimdata/super/compiler"
	"github.com/brimdata/super/compiler/data"
	"github.com/brimdata/super/lakeparse"
	"github.com/brimdata/super/order"
	"github.com/brimdata/super/pkg/field"
	"github.com/brimdata/super/runtime"
	"github.com/brimdata/super/runtime/sam/expr"
	"github.com/brimdata/super/zbuf"
	"github.com/brimdata/super/zcode"
	"github.com/segmentio/ksuid"
	"pgregory.net/rapid"

	"verif/gen"
	"verif/lakeh"
	"verif/memstore"
	"verif/oracle"
	"verif/vt"
)

func TestMain(m *testing.M) { vt.Main(m) }

func fail(sig, format string, args ...any) *vt.Failure { return vt.Failf(sig, format, args...) }

// ---------- case

// Probe names a program whose (sequential) output must have pairwise non-tying
// values of Key: the place where the generated program claims a total order.
type Probe struct {
	Prog string   `json:"prog"`
	Key  []string `json:"key"`
}

// SortInfo describes the last single-key sort of the program (nil if none):
// the prefix in front of it, its key and flags.  It is used to recognise the
// known nulls-position finding of lifted sorts.
type SortInfo struct {
	Prefix     string   `json:"prefix"`
	Key        []string `json:"key"`
	Desc       bool     `json:"desc"`
	NullsFirst bool     `json:"nulls_first"`
	// OrderSensitiveAfter: an operator whose result depends on the order (head, tail, uniq, fuse, over...) follows the sort.
	OrderSensitiveAfter bool `json:"order_sensitive_after"`
}

type Case struct {
	Pool    lakeh.PoolSpec `json:"pool"`
	File    bool           `json:"file_mode"`
	Batches []gen.Seq      `json:"batches"`
	Prog    string         `json:"prog"`
	// Class says how results of two executions may be compared:
	// "total": the program defines a total order (explicit sort on a key that never ties, or pool-key order over
	// never-tying keys, followed by order-preserving operators) -> identical sequences;
	// "keyed": an order is defined on Key but keys may tie -> equal multisets and pairwise equal key sequences;
	// "multiset": no order defined -> equal multisets.
	Class   string   `json:"class"`
	Key     []string `json:"key,omitempty"`
	Probes  []Probe  `json:"probes,omitempty"`
	Sort    *SortInfo `json:"sort,omitempty"`
	Collect []string `json:"collect_fields,omitempty"` // top-level output fields that hold collect() arrays (compared as multisets)
	Pars    []int    `json:"pars"`
	Repeats int      `json:"repeats"`
	Feats   []string `json:"feats,omitempty"`
	// Excluded lists known-defective classes (findings of other properties) the generator steered around for this case.
	Excluded []string `json:"excluded,omitempty"`
}

// ---------- generation

type poolInfo struct {
	keyThis     bool
	uniqueKeys  bool // every value is a record whose k is a distinct int64
	hasNullKey  bool
	hasMissKey  bool
	hasNonRec   bool
	mixedN      bool
	nvals       int
	keyLo, keyHi int
}

func genBatches(t *rapid.T, keyThis bool) ([]gen.Seq, poolInfo) {
	info := poolInfo{keyThis: keyThis}
	maxVals := 24
	if vt.Thorough() {
		maxVals = 60
	}
	nb := ir(t, 1, 4, "nbatches")
	unique := !keyThis && ir(t, 0, 9, "uniquekeys") < 4
	info.uniqueKeys = unique
	messyKeys := !unique && ir(t, 0, 2, "messykeys") > 0
	nonrec := !unique && ir(t, 0, 5, "nonrecords") == 0
	info.mixedN = ir(t, 0, 4, "mixedn") == 0
	var sizes []int
	total := 0
	for i := 0; i < nb; i++ {
		n := ir(t, 2, maxVals, "blen")
		sizes = append(sizes, n)
		total += n
	}
	// ids: a permutation so that id order is unrelated to key order and load order
	ids := rapid.Permutation(seqInts(total)).Draw(t, "ids")
	var uniq []int
	if unique {
		// distinct keys from a range three times the size (so that batches interleave and filters select subsets)
		pool := rapid.Permutation(seqInts(3 * total)).Draw(t, "ukeys")
		uniq = pool[:total]
	}
	info.keyLo, info.keyHi = 1<<30, -(1 << 30)
	var batches []gen.Seq
	next := 0
	for i := 0; i < nb; i++ {
		base := pickOf(t, "base", []int{0, 0, 5, 20, 100})
		span := pickOf(t, "span", []int{2, 8, 40})
		var sb strings.Builder
		for j := 0; j < sizes[i]; j++ {
			id := ids[next]
			if nonrec && ir(t, 0, 9, "nonrec?") == 0 {
				sb.WriteString(pickOf(t, "nonrecval", []string{`"str" `, `17 `, `null `, `[1,2] `}))
				info.hasNonRec = true
				next++
				continue
			}
			var fields []string
			// key
			switch {
			case unique:
				k := uniq[next]
				fields = append(fields, fmt.Sprintf("k:%d", k))
				info.keyLo, info.keyHi = min(info.keyLo, k), max(info.keyHi, k)
			default:
				kk := 9
				if messyKeys {
					kk = ir(t, 0, 13, "keykind")
				}
				k := base + ir(t, 0, span, "key")
				info.keyLo, info.keyHi = min(info.keyLo, k), max(info.keyHi, k)
				switch kk {
				case 0:
					fields = append(fields, "k:null(int64)")
					info.hasNullKey = true
				case 1:
					info.hasMissKey = true
				case 2:
					fields = append(fields, fmt.Sprintf("k:%q", pickOf(t, "skey", []string{"a", "b", ""})))
				case 3:
					fields = append(fields, fmt.Sprintf("k:%d.", k))
				case 4:
					fields = append(fields, fmt.Sprintf("k:%d.5", k))
				case 5:
					fields = append(fields, fmt.Sprintf("k:%d(uint64)", k))
				default:
					fields = append(fields, fmt.Sprintf("k:%d", k))
				}
			}
			fields = append(fields, fmt.Sprintf("id:%d", id))
			// s
			switch ir(t, 0, 11, "skind") {
			case 0:
				fields = append(fields, "s:null(string)")
			case 1:
			default:
				fields = append(fields, fmt.Sprintf("s:%q", pickOf(t, "s", []string{"a", "b", "c", ""})))
			}
			// n
			nk := ir(t, 0, 13, "nkind")
			nv := ir(t, -3, 12, "n")
			switch {
			case nk == 0:
				fields = append(fields, "n:null(int64)")
			case nk == 1:
			case nk == 2 && info.mixedN:
				fields = append(fields, fmt.Sprintf("n:%d.", nv))
			case nk == 3 && info.mixedN:
				fields = append(fields, fmt.Sprintf("n:%d(uint64)", max(nv, 0)))
			case nk == 4 && info.mixedN:
				fields = append(fields, `n:"x"`)
			default:
				fields = append(fields, fmt.Sprintf("n:%d", nv))
			}
			// f: dyadic rationals, so that float sums are exact whatever the order of the additions
			if ir(t, 0, 9, "fkind") > 0 {
				fields = append(fields, fmt.Sprintf("f:%s", fmtQuarter(ir(t, -32, 32, "f"))))
			}
			// a
			if ir(t, 0, 3, "akind") == 0 {
				na := ir(t, 0, 3, "alen")
				var el []string
				for x := 0; x < na; x++ {
					el = append(el, fmt.Sprint(id*10+x))
				}
				fields = append(fields, "a:["+strings.Join(el, ",")+"]")
			}
			sb.WriteString("{" + strings.Join(fields, ",") + "} ")
			next++
		}
		batches = append(batches, gen.SeqFromZSON(sb.String()))
	}
	info.nvals = total
	if info.keyLo > info.keyHi {
		info.keyLo, info.keyHi = 0, 10
	}
	return batches, info
}

func fmtQuarter(q int) string {
	s := fmt.Sprintf("%g", float64(q)/4)
	if !strings.ContainsAny(s, ".e") {
		s += "."
	}
	return s
}

func seqInts(n int) []int {
	out := make([]int, n)
	for i := range out {
		out[i] = i
	}
	return out
}

// pst is what the program generator knows about the stream.
type pst struct {
	class  string
	key    []string
	fields map[string]bool // fields of the input records that still exist unchanged under their name
	ops    []string
	probes []Probe
	sort   *SortInfo
	feats  map[string]bool
	coll   []string
	excl   map[string]bool
	keyName string // text of the pool key ("k" or "this")
	info   poolInfo
}

func (s *pst) text() string { return strings.Join(s.ops, " | ") }
func (s *pst) add(op string) {
	s.ops = append(s.ops, op)
}
func (s *pst) feat(f string) { s.feats[f] = true }

// touch records that field f was removed or changed.
func (s *pst) touch(f string) {
	delete(s.fields, f)
	if s.class == "keyed" && len(s.key) == 1 && s.key[0] == f {
		s.class, s.key = "multiset", nil
	}
}

func (s *pst) orderSensitive() {
	if s.sort != nil {
		s.sort.OrderSensitiveAfter = true
	}
}

func pick(t *rapid.T, label string, list ...string) string { return pickOf(t, label, list) }

// rapid's integer generators favour small values; choices between alternatives are drawn
// (approximately) uniformly instead: a raw 64-bit draw, mixed by a bijection with 0 -> 0 so that
// shrinking still moves towards the first alternative.
func mix64(z uint64) uint64 {
	z ^= z >> 30
	z *= 0xbf58476d1ce4e5b9
	z ^= z >> 27
	z *= 0x94d049bb133111eb
	z ^= z >> 31
	return z
}

func ir(t *rapid.T, lo, hi int, label string) int {
	if hi <= lo {
		return lo
	}
	return lo + int(mix64(rapid.Uint64().Draw(t, label))%uint64(hi-lo+1))
}

func pickOf[T any](t *rapid.T, label string, list []T) T { return list[ir(t, 0, len(list)-1, label)] }

func (s *pst) has(f string) bool { return s.fields[f] }

func genPred(t *rapid.T, s *pst) string {
	var cands []string
	c := ir(t, -1, 9, "c")
	if s.has("n") {
		cands = append(cands, fmt.Sprintf("n > %d", c), fmt.Sprintf("n <= %d", c), "has(n)", fmt.Sprintf("n == %d", c), fmt.Sprintf("not (n > %d)", c), "n != null")
	}
	if s.has("s") {
		cands = append(cands, `s == "a"`, `s != "b"`, `s > "a"`, `has(s)`)
	}
	if s.has("k") {
		kc := ir(t, s.info.keyLo-1, s.info.keyHi+1, "kc")
		cands = append(cands, fmt.Sprintf("k >= %d", kc), fmt.Sprintf("k < %d", kc), fmt.Sprintf("k > %d and k <= %d", kc-5, kc+5), fmt.Sprintf("k != %d", kc), fmt.Sprintf("%d <= k", kc))
	}
	if s.has("id") {
		cands = append(cands, fmt.Sprintf("id %% 3 == %d", ir(t, 0, 2, "m")), fmt.Sprintf("id >= %d", ir(t, 0, s.info.nvals, "idc")))
	}
	if s.has("f") {
		cands = append(cands, "f > 0.", "f <= 1.5")
	}
	if len(cands) == 0 {
		return "true"
	}
	p := pickOf(t, "pred", cands)
	if ir(t, 0, 3, "conj") == 0 {
		q := pickOf(t, "pred2", cands)
		p = "(" + p + ") " + pick(t, "andor", "and", "or") + " (" + q + ")"
	}
	return p
}

func genShape(t *rapid.T, s *pst) {
	switch ir(t, 0, 9, "shape") {
	case 0:
		if s.has("n") {
			s.add("put x:=n+1")
			s.feat("put")
		}
	case 1:
		if s.has("n") {
			s.add("put n:=n*2")
			s.touch("n")
			s.fields["n"] = true // still a field named n (values changed)
			s.feat("put-overwrite")
		}
	case 2:
		// cut a subset; id and the pool key are kept most of the time
		var keep []string
		for _, f := range []string{"id", "k", "s", "n", "f", "a"} {
			if !s.has(f) {
				continue
			}
			p := 6
			if f == "id" || f == "k" {
				p = 9
			}
			if ir(t, 0, 9, "keep-"+f) < p {
				keep = append(keep, f)
			}
		}
		if len(keep) == 0 {
			return
		}
		for _, f := range []string{"id", "k", "s", "n", "f", "a"} {
			if s.has(f) && !contains(keep, f) {
				s.touch(f)
			}
		}
		if rapid.Bool().Draw(t, "cut-or-yield") {
			s.add("cut " + strings.Join(keep, ","))
			s.feat("cut")
		} else {
			s.add("yield {" + strings.Join(keep, ",") + "}")
			s.feat("yield-record")
		}
	case 3:
		f := pick(t, "dropf", "f", "a", "s", "n", "k")
		if s.has(f) {
			s.add("drop " + f)
			s.touch(f)
			s.feat("drop")
			if f == "k" {
				s.feat("drop-poolkey")
			}
		}
	case 4:
		if s.has("n") {
			wasKey := s.class == "keyed" && len(s.key) == 1 && s.key[0] == "n"
			s.add("rename m:=n")
			delete(s.fields, "n")
			if wasKey {
				s.key = []string{"m"}
			}
			s.feat("rename")
		}
	case 5:
		if s.has("k") && !s.info.keyThis {
			wasKey := s.class == "keyed" && len(s.key) == 1 && s.key[0] == "k"
			s.add("rename kk:=k")
			delete(s.fields, "k")
			if wasKey {
				s.key = []string{"kk"}
			}
			s.feat("rename-poolkey")
		}
	case 6:
		if s.has("k") && s.has("id") && !s.info.keyThis {
			s.add("put k:=id")
			s.touch("k")
			s.fields["k"] = true
			s.feat("put-poolkey")
		}
	case 7:
		if s.has("s") {
			s.add(`put t:=s+"z"`)
			s.feat("put")
		}
	default:
		s.add("where " + genPred(t, s))
		s.feat("where-late")
	}
}

func contains(list []string, x string) bool {
	for _, y := range list {
		if x == y {
			return true
		}
	}
	return false
}

// aggregate functions whose result does not depend on the order of the input
// (collect() is compared as a multiset; floats are dyadic so sums are exact).
func genAggs(t *rapid.T, s *pst) []string {
	var cands []string
	cands = append(cands, "count()")
	if s.has("n") {
		cands = append(cands, "sum(n)", "min(n)", "max(n)", "avg(n)", "count() where n > 2", "and(n > 0)", "or(n > 5)", "sn:=union(n)")
	}
	if s.has("f") {
		cands = append(cands, "sf:=sum(f)", "af:=avg(f)", "mf:=max(f)")
	}
	if s.has("s") {
		cands = append(cands, "us:=union(s)", "ds:=dcount(s)", "ms:=min(s)")
	}
	if s.has("id") {
		cands = append(cands, "c:=collect(id)", "mi:=max(id)", "si:=sum(id)")
	}
	n := ir(t, 1, 3, "naggs")
	var out []string
	seen := map[string]bool{}
	for i := 0; i < n; i++ {
		a := pickOf(t, "agg", cands)
		name := a
		if i := strings.Index(a, ":="); i > 0 {
			name = a[:i]
		} else if i := strings.IndexAny(a, "( "); i > 0 {
			name = a[:i]
		}
		if seen[name] {
			continue
		}
		seen[name] = true
		out = append(out, a)
		if name == "c" {
			s.coll = append(s.coll, "c")
		}
	}
	return out
}

func genSummarize(t *rapid.T, s *pst) {
	aggs := genAggs(t, s)
	var keyCands [][]string
	keyCands = append(keyCands, nil, nil)
	if s.has("s") {
		keyCands = append(keyCands, []string{"s"}, []string{"s"})
	}
	if s.has("n") {
		keyCands = append(keyCands, []string{"n"}, []string{"m:=n%3"}, []string{"t:=typeof(n)"})
	}
	if s.has("s") && s.has("n") {
		keyCands = append(keyCands, []string{"s", "n"})
	}
	if s.has("k") {
		keyCands = append(keyCands, []string{"k"}, []string{"k"}, []string{"k2:=k"}, []string{"t:=typeof(k)"})
		if s.has("s") {
			keyCands = append(keyCands, []string{"k", "s"}, []string{"s", "k"})
		}
	}
	keys := pickOf(t, "bykeys", keyCands)
	poolKeyed := s.class != "multiset" || len(s.ops) == 0
	_ = poolKeyed
	// Known findings of C07/C10 (sort-key propagation into summarize) make the sequential reference itself wrong;
	// steer around them: the pool key as a non-first group-by key, and grouping on the pool key when the pool holds both
	// null and missing keys.
	if contains(keys, "k") && !s.info.keyThis {
		if keys[0] != "k" {
			s.excl["C07-sortkey-summarize-sort-key-not-first-groupby-key"] = true
			keys = []string{"k", "s"}
		}
		if s.info.hasNullKey && s.info.hasMissKey || s.info.hasNonRec && s.info.hasNullKey {
			s.excl["C07-sortkey-summarize-null-and-missing-keys-interleaved"] = true
			keys = []string{"s"}
			if !s.has("s") {
				keys = nil
			}
		}
	}
	op := strings.Join(aggs, ", ")
	if len(keys) > 0 {
		op += " by " + strings.Join(keys, ", ")
	}
	s.add(op)
	s.feat("summarize")
	if contains(keys, "k") || contains(keys, "k2:=k") {
		s.feat("summarize-by-poolkey")
	}
	if len(keys) == 0 {
		s.feat("summarize-nokeys")
	}
	s.orderSensitive()
	s.class, s.key = "multiset", nil
	s.fields = map[string]bool{}
	var names []string
	for _, k := range keys {
		if i := strings.Index(k, ":="); i > 0 {
			k = k[:i]
		}
		names = append(names, k)
	}
	if len(names) > 0 && ir(t, 0, 2, "sortgroups") > 0 {
		g := names[0]
		flag := pick(t, "gsortflag", "", "", "-r ")
		s.sort = &SortInfo{Prefix: s.text(), Key: []string{g}, Desc: flag == "-r "}
		s.add("sort " + flag + g)
		s.class, s.key = "keyed", []string{g}
		s.feat("sort-groups")
	}
}

func genSortKeyed(t *rapid.T, s *pst) bool {
	var cands []string
	for _, f := range []string{"n", "s", "k", "f", "n", "k"} {
		if s.has(f) {
			cands = append(cands, f)
		}
	}
	if len(cands) == 0 {
		return false
	}
	f := pickOf(t, "sortfield", cands)
	flag := pick(t, "sortflag", "", "", "", "-r ", "-r ", "-nulls first ", "-r -nulls first ")
	s.sort = &SortInfo{Prefix: s.text(), Key: []string{f}, Desc: strings.Contains(flag, "-r"), NullsFirst: strings.Contains(flag, "nulls")}
	s.add("sort " + flag + f)
	s.class, s.key = "keyed", []string{f}
	s.feat("sort-keyed")
	if f == "k" {
		s.feat("sort-poolkey")
	}
	return true
}

func genProgram(t *rapid.T, info poolInfo) *pst {
	s := &pst{fields: map[string]bool{"id": true, "k": true, "s": true, "n": true, "f": true, "a": true},
		feats: map[string]bool{}, excl: map[string]bool{}, info: info}
	s.ops = []string{"from p"}
	if info.keyThis {
		s.class, s.key = "keyed", []string{"this"}
	} else if info.uniqueKeys {
		s.class = "total"
		s.probes = append(s.probes, Probe{Prog: "from p", Key: []string{"k"}})
		s.feat("pool-order-total")
	} else {
		s.class, s.key = "keyed", []string{"k"}
	}
	if ir(t, 0, 9, "lead-filter") < 5 {
		s.add("where " + genPred(t, s))
		s.feat("where")
	}
	for i, n := 0, ir(t, 0, 2, "nshape"); i < n; i++ {
		genShape(t, s)
	}
	// main operator
	m := ir(t, -3, 24, "main")
	if s.class == "total" && ir(t, 0, 3, "keep-pool-order") == 0 {
		// pool-key order over distinct keys followed by head/tail is the only shape whose head/tail the optimizer lifts
		// into the legs (behind a lifted sort it does not), so keep it frequent
		m = 0
	}
	switch {
	case m < 0 || m >= 23:
		genSummarize(t, s)
	case m < 3:
		// nothing: pool order
	case m < 8:
		if s.has("id") && !info.hasNonRec {
			flag := pick(t, "idsortflag", "", "-r ")
			s.probes = append(s.probes, Probe{Prog: s.text(), Key: []string{"id"}})
			s.sort = &SortInfo{Prefix: s.text(), Key: []string{"id"}, Desc: flag != ""}
			s.add("sort " + flag + "id")
			s.class, s.key = "total", nil
			s.feat("sort-total")
		}
	case m < 11:
		genSortKeyed(t, s)
	case m < 12:
		if s.has("id") && s.has("s") && !info.hasNonRec {
			s.probes = append(s.probes, Probe{Prog: s.text(), Key: []string{"id"}})
			s.add("sort " + pick(t, "mk", "s, id", "n, id", "-r s, id"))
			s.sort = nil
			s.class, s.key = "total", nil
			s.feat("sort-multikey")
		}
	case m < 19:
		genSummarize(t, s)
	case m < 20:
		if s.has("s") {
			s.add("yield s | where typeof(this)==<string> | sort this | " + pick(t, "uniq", "uniq", "uniq -c"))
			s.sort = nil
			s.class, s.key = "total", nil
			s.fields = map[string]bool{}
			s.feat("uniq-after-sort")
		}
	case m < 21:
		if s.has("a") {
			s.add("over a")
			s.orderSensitive()
			if s.class != "total" {
				s.class, s.key = "multiset", nil
			}
			s.fields = map[string]bool{}
			s.feat("over")
		}
	default:
		if s.class == "total" {
			s.add("fuse")
			s.feat("fuse")
		}
	}
	// order-sensitive tail operators only behind a total order
	if s.class == "total" {
		switch ir(t, 0, 5, "tailop") {
		case 0, 1:
			s.add(fmt.Sprintf("head %d", ir(t, 1, 9, "headn")))
			s.orderSensitive()
			s.feat("head")
		case 2:
			s.add(fmt.Sprintf("tail %d", ir(t, 1, 9, "tailn")))
			s.orderSensitive()
			s.feat("tail")
		case 3:
			s.add("uniq")
			s.orderSensitive()
			s.feat("uniq")
		}
		if ir(t, 0, 5, "post") == 0 {
			if rapid.Bool().Draw(t, "postkind") && s.has("n") {
				s.add("sum(n), count()")
				s.orderSensitive()
				s.class = "multiset"
				s.feat("summarize-after-limit")
			} else if s.has("id") {
				s.add("cut id")
			}
		}
	}
	return s
}

func genCase(t *rapid.T) Case {
	keyThis := ir(t, 0, 11, "keythis") == 0
	c := Case{
		Pool: lakeh.PoolSpec{Name: "p", Key: []string{"k"}, Desc: (ir(t, 0, 1, "desc") == 1),
			Thresh: pickOf(t, "thresh", []int64{1, 1, 1, 40, 120, 400}),
			Stride: pickOf(t, "stride", []int{1, 16, 0})},
		File: ir(t, 0, 3, "filemode") == 0,
	}
	if keyThis {
		c.Pool.Key = []string{"this"}
	}
	var info poolInfo
	c.Batches, info = genBatches(t, keyThis)
	s := genProgram(t, info)
	c.Prog = s.text()
	c.Class, c.Key, c.Probes, c.Sort, c.Collect = s.class, s.key, s.probes, s.sort, s.coll
	for f := range s.feats {
		c.Feats = append(c.Feats, f)
	}
	sort.Strings(c.Feats)
	for f := range s.excl {
		c.Excluded = append(c.Excluded, f)
	}
	sort.Strings(c.Excluded)
	// every parallelism once through the explicit steps (DAG inspected), then Repeats more runs through
	// NewLakeQuery at drawn parallelisms (0 = compiler.Parallelism, i.e. GOMAXPROCS at start-up)
	c.Pars = []int{2, 3, 8, 16}
	c.Repeats = ir(t, 0, 4, "repeats")
	for i := 0; i < c.Repeats; i++ {
		c.Pars = append(c.Pars, pickOf(t, "reppar", []int{2, 3, 8, 16, 16, 0}))
	}
	return c
}

// ---------- execution

type env struct {
	ctx  context.Context
	lk   *lakeh.Lake
	pool ksuid.KSUID
	zctx *zed.Context
}

// dagInfo is what the harness reads off the parallelised DAG.
type dagInfo struct {
	Legs        int
	Merge       bool
	Combine     bool
	Slicer      bool
	SumPartials bool
	SortLifted  bool
	HeadLifted  bool
	TailLifted  bool
	Vectorize   bool
	// CutDropsMergeKey: a cut inside the legs does not keep the field the legs are merged on afterwards
	CutDropsMergeKey bool
}

func (d dagInfo) shape() string {
	var parts []string
	if d.Legs == 0 {
		return "no-scatter"
	}
	if d.Slicer {
		parts = append(parts, "slicer")
	}
	if d.Merge {
		parts = append(parts, "merge")
	}
	if d.Combine {
		parts = append(parts, "combine")
	}
	if d.SumPartials {
		parts = append(parts, "summarize-partials")
	}
	if d.SortLifted {
		parts = append(parts, "sort-lifted")
	}
	if d.HeadLifted {
		parts = append(parts, "head-lifted")
	}
	if d.TailLifted {
		parts = append(parts, "tail-lifted")
	}
	return strings.Join(parts, "+")
}

func inspectDAG(entry any) (dagInfo, string) {
	b, err := json.Marshal(entry)
	if err != nil {
		return dagInfo{}, ""
	}
	var ops []map[string]any
	var info dagInfo
	if json.Unmarshal(b, &ops) != nil {
		return info, string(b)
	}
	info.Vectorize = strings.Contains(string(b), `"kind":"Vectorize"`)
	for i, op := range ops {
		switch op["kind"] {
		case "Slicer":
			info.Slicer = true
		case "Scatter":
			paths, _ := op["paths"].([]any)
			info.Legs = len(paths)
			mergePath := "?"
			if i+1 < len(ops) {
				switch ops[i+1]["kind"] {
				case "Merge":
					info.Merge = true
					if ex, _ := ops[i+1]["expr"].(map[string]any); ex != nil && ex["kind"] == "This" {
						mergePath = pathText(ex["path"])
					}
				case "Combine":
					info.Combine = true
				}
			}
			if len(paths) > 0 {
				leg, _ := paths[0].([]any)
				for _, lo := range leg {
					m, _ := lo.(map[string]any)
					switch m["kind"] {
					case "Summarize":
						if po, _ := m["partials_out"].(bool); po {
							info.SumPartials = true
						}
					case "Sort":
						info.SortLifted = true
					case "Cut":
						if info.Merge {
							kept := false
							args, _ := m["args"].([]any)
							for _, a := range args {
								am, _ := a.(map[string]any)
								lhs, _ := am["lhs"].(map[string]any)
								if lhs != nil && lhs["kind"] == "This" && pathText(lhs["path"]) == mergePath {
									kept = true
								}
							}
							if !kept {
								info.CutDropsMergeKey = true
							}
						}
					case "Head":
						info.HeadLifted = true
					case "Tail":
						info.TailLifted = true
					}
				}
			}
		}
	}
	return info, string(b)
}

func pathText(p any) string {
	l, _ := p.([]any)
	var parts []string
	for _, x := range l {
		parts = append(parts, fmt.Sprint(x))
	}
	return strings.Join(parts, ".")
}

func pullAll(p zbuf.Puller) ([]zed.Value, error) {
	var out []zed.Value
	for {
		batch, err := p.Pull(false)
		if err != nil {
			return out, err
		}
		if batch == nil {
			return out, nil
		}
		for _, v := range batch.Values() {
			out = append(out, v.Copy())
		}
		batch.Unref()
	}
}

// viaLakeQuery runs src through the public compile path.
func (e *env) viaLakeQuery(src string, par int) ([]zed.Value, error) {
	seq, _, err := compiler.Parse(src)
	if err != nil {
		return nil, err
	}
	rctx := runtime.NewContext(e.ctx, zed.NewContext())
	defer rctx.Cancel()
	q, err := compiler.NewLakeCompiler(e.lk.Root).NewLakeQuery(rctx, seq, par, &lakeparse.Commitish{})
	if err != nil {
		return nil, err
	}
	vals, err := pullAll(q)
	if err != nil {
		return nil, err
	}
	return lakeh.Translate(e.zctx, vals), nil
}

// viaJob runs src through the explicit steps NewJob -> Optimize -> Parallelize(par) -> Build so that the DAG is visible.
func (e *env) viaJob(src string, par int) ([]zed.Value, dagInfo, string, error) {
	seq, _, err := compiler.Parse(src)
	if err != nil {
		return nil, dagInfo{}, "", err
	}
	rctx := runtime.NewContext(e.ctx, zed.NewContext())
	defer rctx.Cancel()
	job, err := compiler.NewJob(rctx, seq, data.NewSource(nil, e.lk.Root), &lakeparse.Commitish{})
	if err != nil {
		return nil, dagInfo{}, "", err
	}
	if err := job.Optimize(); err != nil {
		return nil, dagInfo{}, "", err
	}
	if par > 1 {
		if err := job.Parallelize(par); err != nil {
			return nil, dagInfo{}, "", err
		}
	}
	info, dagText := inspectDAG(job.Entry())
	if err := job.Build(); err != nil {
		return nil, info, dagText, err
	}
	vals, err := pullAll(job.Puller())
	if err != nil {
		return nil, info, dagText, err
	}
	return lakeh.Translate(e.zctx, vals), info, dagText, nil
}

func (e *env) keysOf(vals []zed.Value, path []string) []zed.Value {
	keyOf := expr.NewDottedExpr(e.zctx, field.Path(path))
	ectx := expr.NewContext()
	out := make([]zed.Value, len(vals))
	for i, v := range vals {
		k := keyOf.Eval(ectx, v)
		if k.IsMissing() || k.IsError() {
			k = zed.Null
		}
		out[i] = k.Copy()
	}
	return out
}

var cmpKeys = expr.NewValueCompareFn(order.Asc, true)

// distinctKeys reports whether no two values tie on the key (missing counts as null).
func (e *env) distinctKeys(vals []zed.Value, path []string) bool {
	keys := e.keysOf(vals, path)
	sort.SliceStable(keys, func(i, j int) bool { return cmpKeys(keys[i], keys[j]) < 0 })
	for i := 1; i < len(keys); i++ {
		if cmpKeys(keys[i-1], keys[i]) == 0 {
			return false
		}
	}
	return true
}

// normCollect returns vals with the elements of the named top-level array fields sorted by their bytes
// (collect() gathers in arrival order, which no parallel plan promises).
func normCollect(zctx *zed.Context, vals []zed.Value, fields []string) []zed.Value {
	if len(fields) == 0 {
		return vals
	}
	out := make([]zed.Value, len(vals))
	for i, v := range vals {
		out[i] = v
		rt := zed.TypeRecordOf(v.Type())
		if rt == nil || v.IsNull() {
			continue
		}
		var b zcode.Builder
		it := v.Bytes().Iter()
		changed := false
		for _, f := range rt.Fields {
			body := it.Next()
			if _, isArr := zed.TypeUnder(f.Type).(*zed.TypeArray); isArr && contains(fields, f.Name) && body != nil {
				var elems []string
				for eit := body.Iter(); !eit.Done(); {
					el := eit.Next()
					if el == nil {
						elems = append(elems, "\x00")
					} else {
						elems = append(elems, "\x01"+string(el))
					}
				}
				sort.Strings(elems)
				b.BeginContainer()
				for _, el := range elems {
					if el == "\x00" {
						b.Append(nil)
					} else {
						b.Append([]byte(el[1:]))
					}
				}
				b.EndContainer()
				changed = true
				continue
			}
			b.Append(body)
		}
		if changed {
			out[i] = zed.NewValue(v.Type(), b.Bytes()).Copy()
		}
	}
	return out
}

// compare applies the oracle of the case's class.
func (e *env) compare(c Case, ref, got []zed.Value) string {
	switch c.Class {
	case "total":
		return oracle.Same(ref, got)
	case "keyed":
		if d := oracle.SameMultiset(ref, got); d != "" {
			return d
		}
		kr, kg := e.keysOf(ref, c.Key), e.keysOf(got, c.Key)
		for i := range kr {
			if cmpKeys(kr[i], kg[i]) != 0 {
				return fmt.Sprintf("same multiset but the %s sequence differs at %d: want %s (in %s) got %s (in %s)",
					strings.Join(c.Key, "."), i, oracle.Show(kr[i]), oracle.Show(ref[i]), oracle.Show(kg[i]), oracle.Show(got[i]))
			}
		}
		return ""
	default:
		return oracle.SameMultiset(ref, got)
	}
}

const sigSortNulls = "C08/sort-lifted/merge-nulls-position"
const sigCutKey = "C08/cut-lifted/drops-merge-key"

func errClass(err error) string {
	s := err.Error()
	if i := strings.IndexByte(s, '\n'); i >= 0 {
		s = s[:i]
	}
	if len(s) > 80 {
		s = s[:80]
	}
	return s
}

func runCase(c Case) *vt.Outcome {
	o := &vt.Outcome{}
	ctx := context.Background()
	mode := memstore.Atomic
	if c.File {
		mode = memstore.File
	}
	lk, err := lakeh.Create(ctx, memstore.NewStore(), mode, nil)
	if err != nil {
		o.Fail = fail("C08/setup", "%v", err)
		return o
	}
	pool, err := lk.CreatePool(ctx, c.Pool)
	if err != nil {
		o.Fail = fail("C08/setup", "%v", err)
		return o
	}
	e := &env{ctx: ctx, lk: lk, pool: pool, zctx: zed.NewContext()}
	for _, b := range c.Batches {
		if _, err := lk.Load(ctx, pool, "main", b.Zctx, b.Vals); err != nil {
			o.Fail = fail("C08/setup", "load: %v", err)
			return o
		}
	}
	tip, err := lk.Tip(ctx, pool, "main")
	if err != nil {
		o.Fail = fail("C08/setup", "%v", err)
		return o
	}
	objs, _, err := lk.Objects(ctx, pool, tip)
	if err != nil {
		o.Fail = fail("C08/setup", "%v", err)
		return o
	}
	nobj := len(objs)
	for _, x := range c.Excluded {
		o.Label("excluded:" + x)
	}
	// the places where the program claims a total order must really have no ties
	for _, p := range c.Probes {
		vals, err := e.viaLakeQuery(p.Prog, 1)
		if err != nil {
			o.Skip = "probe-error"
			return o
		}
		if !e.distinctKeys(vals, p.Key) {
			o.Skip = "order-not-total"
			return o
		}
	}
	ref, err := e.viaLakeQuery(c.Prog, 1)
	if err != nil {
		o.Skip = "reference-error: " + errClass(err)
		return o
	}
	ref = normCollect(e.zctx, ref, c.Collect)
	o.Label("class:" + c.Class)
	for _, f := range c.Feats {
		o.Label("prog:" + f)
	}
	if c.Pool.Desc {
		o.Label("pool:desc")
	}
	if len(c.Pool.Key) == 1 && c.Pool.Key[0] == "this" {
		o.Label("pool:key-this")
	}
	switch {
	case nobj >= 32:
		o.Label("objects>=32")
	case nobj >= 16:
		o.Label("objects>=16")
	case nobj >= 4:
		o.Label("objects>=4")
	default:
		o.Label("objects<4")
	}
	if len(ref) == 0 {
		o.Label("empty-result")
	}
	// the sequential plan itself must be repeatable
	again, err := e.viaLakeQuery(c.Prog, 1)
	if err != nil {
		o.Fail = fail("C08/sequential-nondeterministic", "%q: second sequential run failed: %v", c.Prog, err)
		return o
	}
	if d := e.compare(c, ref, normCollect(e.zctx, again, c.Collect)); d != "" {
		o.Fail = fail("C08/sequential-nondeterministic", "%q (class %s): two runs at parallelism 1 differ: %s", c.Prog, c.Class, d)
		return o
	}
	knownSeen := map[string]bool{}
	cutDrops := map[int]bool{} // per parallelism (learned from the explicit run, which comes first)
	exact, tied := 0, 0
	for i, par := range c.Pars {
		{
			rep := i
			var got []zed.Value
			var info dagInfo
			var dagText string
			explicit := i < len(c.Pars)-c.Repeats && par != 0
			if explicit {
				got, info, dagText, err = e.viaJob(c.Prog, par)
			} else {
				got, err = e.viaLakeQuery(c.Prog, par)
			}
			o.Evals++
			if err != nil {
				o.Fail = fail("C08/parallel-error/"+errClassSig(err), "%q at parallelism %d (explicit=%v) failed: %v; sequential run returned %d values", c.Prog, par, explicit, err, len(ref))
				return o
			}
			got = normCollect(e.zctx, got, c.Collect)
			if explicit {
				if info.CutDropsMergeKey {
					cutDrops[par] = true
					cutDrops[0] = true
					o.Label("dag:cut-drops-merge-key")
				}
				if info.Legs >= 2 {
					o.Label("dag:scatter", "dag:"+info.shape())
					if info.Merge {
						o.Label("dag:merge")
					}
					if info.Combine {
						o.Label("dag:combine")
					}
					if info.Slicer {
						o.Label("dag:slicer")
					}
					if info.SumPartials {
						o.Label("dag:summarize-partials")
					}
					if info.SortLifted {
						o.Label("dag:sort-lifted")
					}
					if info.HeadLifted || info.TailLifted {
						o.Label("dag:head/tail-lifted")
					}
					if nobj >= 2*info.Legs {
						o.Units = append(o.Units, fmt.Sprintf("par=%d", par))
					}
				} else if par == 2 {
					o.Label("dag:not-parallelized")
				}
			}
			d := e.compare(c, ref, got)
			if d == "" {
				if c.Class == "keyed" {
					if oracle.Same(ref, got) == "" {
						exact++
					} else {
						tied++
					}
				}
				continue
			}
			// known: a single-key sort lifted into the legs is merged with a comparator that puts nulls at the
			// opposite end when exactly one of desc / nulls-first is set
			if s := c.Sort; s != nil && s.Desc != s.NullsFirst {
				if e.sortHasNullKeys(s) {
					lost := oracle.SameMultiset(ref, got)
					if s.OrderSensitiveAfter || lost == "" {
						if vt.IsKnown(sigSortNulls) {
							knownSeen[sigSortNulls] = true
							continue
						}
						o.Fail = fail(sigSortNulls, "%q at parallelism %d: %s", c.Prog, par, d)
						return o
					}
				}
			}
			// known: analyzeCuts believes that a cut which does not mention the merge key keeps it, so the cut is
			// lifted in front of the merge, which then compares missing keys
			if cutDrops[par] {
				if vt.IsKnown(sigCutKey) {
					knownSeen[sigCutKey] = true
					continue
				}
				o.Fail = fail(sigCutKey, "%q at parallelism %d: %s\ndag=%s", c.Prog, par, d, dagText)
				return o
			}
			sig := "C08/differs/" + c.Class
			if explicit {
				sig += "/" + info.shape()
			}
			o.Fail = fail(sig, "%q (class %s) at parallelism %d (explicit=%v, run %d) differs from parallelism 1: %s\nobjects=%d dag=%s", c.Prog, c.Class, par, explicit, rep, d, nobj, dagText)
			return o
		}
	}
	for k := range knownSeen {
		o.Known = append(o.Known, k)
	}
	if c.Class == "keyed" {
		if tied > 0 {
			o.Label("keyed:ties-reordered")
		} else if exact > 0 {
			o.Label("keyed:identical-sequence")
		}
	}
	o.NonTrivial = len(o.Units) > 0
	o.Labels = dedupe(o.Labels)
	return o
}

func dedupe(l []string) []string {
	seen := map[string]bool{}
	var out []string
	for _, x := range l {
		if !seen[x] {
			seen[x] = true
			out = append(out, x)
		}
	}
	return out
}

func errClassSig(err error) string {
	s := errClass(err)
	if strings.HasPrefix(s, "panic") {
		return "panic"
	}
	return "error"
}

// sortHasNullKeys reports whether the stream in front of the program's sort holds a value whose sort key is null or missing.
func (e *env) sortHasNullKeys(s *SortInfo) bool {
	vals, err := e.viaLakeQuery(s.Prefix, 1)
	if err != nil {
		return false
	}
	for _, k := range e.keysOf(vals, s.Key) {
		if k.IsNull() {
			return true
		}
	}
	return false
}

const rule = "case = pool (key k | this, asc/desc, threshold in {1,40,120,400} so that loads split into many objects, seek stride {1,16,default}, atomic/file storage; 1..4 loads of 1..24 (thorough 60) records {k,id,s,n,f,a} with overlapping and disjoint key ranges; keys either distinct ints or int/uint/float/string/null/missing with duplicates; non-record values; id unique) " +
	"x program `from p | [where] [cut/put/drop/rename/yield...] [sort total | sort keyed (-r, -nulls first) | multi-key sort | summarize (count sum min max avg union collect and or dcount, where-clauses; by s | n | k | computed keys) [| sort group] | yield s..sort this | uniq | over a | fuse] [head|tail|uniq after a total order] [summarize]` " +
	"x parallelism {2,3,8,16}, each once through the explicit NewJob->Optimize->Parallelize(n)->Build steps (whose DAG is inspected), plus 0..4 repeated runs through compiler.NewLakeCompiler(root).NewLakeQuery at drawn parallelisms incl. 0 (= compiler.Parallelism). " +
	"Reference = NewLakeQuery at parallelism 1 (run twice). Oracle by class: total order (explicit sort on a never-tying key / pool-key order with distinct keys; verified by probing the prefix for ties) -> identical sequence; order on a key with ties -> equal multisets and pairwise equal key sequences; otherwise equal multisets (collect() arrays compared as multisets; float inputs are dyadic so sums are exact). " +
	"A case is non-trivial for parallelism n when the DAG built for n contains a Scatter with >=2 legs and the pool holds >= 2*legs objects; distinct = (case digest, n). evaluations = parallel executions."

func newProp(name string) *vt.Prop[Case] {
	return &vt.Prop[Case]{Name: name, Rule: rule, Gen: genCase, Run: runCase}
}

var (
	propDefault = newProp("TestParallel")
	propP1      = newProp("TestParallelP1")
	propP2      = newProp("TestParallelP2")
)

func init() { propDefault.Register(); propP1.Register(); propP2.Register() }

func TestParallel(t *testing.T)   { propDefault.Check(t) }
func TestParallelP1(t *testing.T) { propP1.Check(t) }
func TestParallelP2(t *testing.T) { propP2.Check(t) }
func TestReplay(t *testing.T)     { vt.TestReplay(t) }
