PROP = dict(
    level="exploration",
    rule="C08: a lake query at parallelism {2,3,8,16,default} vs the same query at parallelism 1",
    level_text="Exploration by differential property-based testing: generated pools (many small objects, overlapping and disjoint key ranges, messy keys) x generated programs are executed through the real lake compiler at parallelism 1 and at 2, 3, 8, 16 (and the default), repeatedly and under GOMAXPROCS 1, 2 and default, and compared with the oracle the program's order class allows. Programs, pools and schedules are sampled, not enumerated; goroutine schedules are only varied (GOMAXPROCS, repetition, -race in the thorough tier), not controlled.",
    level_note="Trusted: the sequential plan (parallelism 1) as reference - its own correctness is the business of C07/C10/C14/C16; the harness's in-memory storage engine; the repo's value comparator for key-sequence comparison. Not covered: multi-key pools (the optimizer refuses to parallelise them), join/fork programs, lister/slicer yield hooks (not present in /repo).",
    technique="differential property-based testing (rapid) with DAG inspection",
    assumptions=["the in-memory storage engine stands in for file/S3 storage", "schedules are varied by GOMAXPROCS in {1,2,default}, repetition and (thorough) the race detector; they are not enumerated"],
    race_thorough=True,
    tests=[dict(name="TestParallel", quick=(4, 60), thorough=(8, 30)),
           dict(name="TestParallelP1", gomaxprocs=1, quick=(2, 60), thorough=(4, 30)),
           dict(name="TestParallelP2", gomaxprocs=2, quick=(2, 60), thorough=(4, 30))],
)
