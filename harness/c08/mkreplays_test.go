package c08

import (
	"encoding/json"
	"os"
	"path/filepath"
	"testing"

	"verif/gen"
	"verif/lakeh"
)

// TestMkReplays (development aid, C08_MKREPLAYS=<dir>) writes the literal minimal reproductions of the
// known findings as replay files.
func TestMkReplays(t *testing.T) {
	dir := os.Getenv("C08_MKREPLAYS")
	if dir == "" {
		t.Skip()
	}
	type replay struct {
		Test   string `json:"test"`
		Sig    string `json:"sig"`
		Expect string `json:"expect"`
		Case   Case   `json:"case"`
	}
	pool := lakeh.PoolSpec{Name: "p", Key: []string{"k"}, Thresh: 1}
	write := func(name string, r replay) {
		b, err := json.MarshalIndent(r, "", " ")
		if err != nil {
			t.Fatal(err)
		}
		if err := os.WriteFile(filepath.Join(dir, name), b, 0o644); err != nil {
			t.Fatal(err)
		}
	}
	// one object per value (threshold 1); id order is the reverse of key order
	in := gen.SeqFromZSON(`{k:1,id:6,n:5} {k:2,id:5} {k:3,id:4,n:3} {k:4,id:3,n:null(int64)} {k:5,id:2,n:4} {k:6,id:1,n:1}`)
	write("known-C08-sort-lifted-nulls.json", replay{Test: "TestParallel", Sig: sigSortNulls, Expect: "known", Case: Case{
		Pool: pool, Batches: []gen.Seq{in}, Prog: "from p | sort -r n", Class: "keyed", Key: []string{"n"},
		Sort: &SortInfo{Prefix: "from p", Key: []string{"n"}, Desc: true}, Pars: []int{2, 3, 8, 16}, Feats: []string{"sort-keyed"}}})
	write("known-C08-sort-lifted-nulls-first.json", replay{Test: "TestParallel", Sig: sigSortNulls, Expect: "known", Case: Case{
		Pool: pool, Batches: []gen.Seq{in}, Prog: "from p | sort -nulls first n | head 3", Class: "keyed", Key: []string{"n"},
		Sort: &SortInfo{Prefix: "from p", Key: []string{"n"}, NullsFirst: true, OrderSensitiveAfter: true}, Pars: []int{2, 3}, Feats: []string{"sort-keyed"}}})
	write("known-C08-cut-drops-merge-key.json", replay{Test: "TestParallel", Sig: sigCutKey, Expect: "known", Case: Case{
		Pool: pool, Batches: []gen.Seq{in}, Prog: "from p | cut id", Class: "total",
		Probes: []Probe{{Prog: "from p", Key: []string{"k"}}}, Pars: []int{2, 3, 8, 16}, Feats: []string{"cut", "pool-order-total"}}})
}
