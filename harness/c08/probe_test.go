package c08

import (
	"context"
	"encoding/json"
	"fmt"
	"os"
	"strings"
	"testing"

	zed "github.com/brimdata/super"
	"github.com/brimdata/super/compiler"
	"github.com/brimdata/super/compiler/data"
	"github.com/brimdata/super/lakeparse"
	"github.com/brimdata/super/runtime"
	"github.com/brimdata/super/zson"

	"verif/gen"
	"verif/lakeh"
	"verif/memstore"
)

func TestProbe(t *testing.T) {
	if os.Getenv("C08_PROBE") == "" {
		t.Skip()
	}
	ctx := context.Background()
	lk, err := lakeh.Create(ctx, memstore.NewStore(), memstore.Atomic, nil)
	if err != nil {
		t.Fatal(err)
	}
	pool, err := lk.CreatePool(ctx, lakeh.PoolSpec{Name: "p", Key: []string{"k"}, Thresh: 1})
	if err != nil {
		t.Fatal(err)
	}
	var sb strings.Builder
	for i := 0; i < 12; i++ {
		if i%4 == 3 { fmt.Fprintf(&sb, "{k:%d,id:%d,s:%q,n:null(int64)} ", i%5, i, []string{"a", "b", "c"}[i%3]) } else { fmt.Fprintf(&sb, "{k:%d,id:%d,s:%q,n:%d} ", i%5, i, []string{"a", "b", "c"}[i%3], i) }
	}
	s := gen.SeqFromZSON(sb.String())
	if _, err := lk.Load(ctx, pool, "main", s.Zctx, s.Vals); err != nil {
		t.Fatal(err)
	}
	for _, src := range strings.Split(os.Getenv("C08_PROBE"), ";") {
		seq, _, err := compiler.Parse(src)
		if err != nil {
			t.Fatal(err)
		}
		rctx := runtime.NewContext(ctx, zed.NewContext())
		job, err := compiler.NewJob(rctx, seq, data.NewSource(nil, lk.Root), &lakeparse.Commitish{})
		if err != nil {
			t.Fatal(err)
		}
		if err := job.Optimize(); err != nil {
			t.Fatal(err)
		}
		if err := job.Parallelize(3); err != nil {
			t.Fatal(err)
		}
		b, _ := json.Marshal(job.Entry())
		fmt.Printf("== %s\n%s\n", src, b)
		if err := job.Build(); err != nil {
			t.Fatal(err)
		}
		p := job.Puller()
		for {
			batch, err := p.Pull(false)
			if err != nil {
				t.Fatal(err)
			}
			if batch == nil {
				break
			}
			for _, v := range batch.Values() {
				fmt.Print(zson.FormatValue(v), " ")
			}
		}
		fmt.Println()
		rctx.Cancel()
	}
}
