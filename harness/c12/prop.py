PROP = dict(
    level="exploration",
    rule="C12: concurrent clients on separate handles, storage steps interleaved by a generated schedule; history checked for linearizability",
    level_text="Exploration: 2-3 clients, each a separate lake handle, issue contending operations while a deterministic scheduler interleaves their individual storage steps according to a rapid-generated schedule; the recorded history is checked for replayability of every branch, uniqueness of names, presence of every acknowledged commit in its parent chain and existence of a linearization accepted by a sequential model. Schedules and operation sets are sampled (PCT-style runs); in addition every schedule with at most two preemptions of nine contending operation pairs is enumerated (thorough tier: completely).",
    level_note="Trusted: harness in-memory storage engine (atomic mode = idealised object store with atomic put-if-absent; file mode mirrors pkg/storage/file.go) and gate scheduler; the sequential model of the operations. Real-time precedence is measured in granted storage steps. Not covered: S3's non-atomic put-if-absent fallback (documented upstream as racy), revert under contention, unreadability at intermediate moments in file mode (covered as crash points by C17).",
    technique="property-based testing (rapid) with a deterministic storage-step scheduler and a linearizability search against a sequential model",
    assumptions=["processes are modelled as separate lake.Root handles over one in-memory store", "a failed operation is allowed whenever it leaves no trace"],
    tests=[dict(name="TestLinearizable", quick=(8, 120), thorough=(16, 2000)),
           dict(name="TestPairsExhaustive", quick=(8, 12), thorough=(16, 48), timeout=dict(quick=1500, thorough=5400))],
)
