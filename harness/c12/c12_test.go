package c12

import (
	"context"
	"fmt"
	"os"
	"sort"
	"strings"
	"sync"
	"testing"

	zed "github.com/brimdata/super"
	"github.com/segmentio/ksuid"
	"pgregory.net/rapid"

	"verif/gen"
	"verif/lakeh"
	"verif/memstore"
	"verif/oracle"
	"verif/vt"
)

func TestMain(m *testing.M) { vt.Main(m) }

func fail(sig, format string, args ...any) *vt.Failure { return vt.Failf(sig, format, args...) }

// Op is one client operation.  Object picks are resolved against the initial
// state, so all clients talk about the same objects.
type Op struct {
	Kind   string `json:"kind"` // load delete compact addvec createpool renamepool droppool createbranch dropbranch
	Pool   string `json:"pool,omitempty"`
	Branch string `json:"branch,omitempty"`
	Other  string `json:"other,omitempty"`
	Batch  int    `json:"batch,omitempty"`
	Pick   []int  `json:"pick,omitempty"`
}

func (o Op) String() string {
	return strings.TrimSpace(fmt.Sprintf("%s %s %s %s %v", o.Kind, o.Pool, o.Branch, o.Other, o.Pick))
}

type Case struct {
	File     bool      `json:"file_mode"`
	Batches  []gen.Seq `json:"batches"`
	Initial  int       `json:"initial_loads"`
	Clients  [][]Op    `json:"clients"`
	Schedule []int     `json:"schedule"` // (client, run length) pairs flattened
	// ProbeEvery > 0: after every ProbeEvery-th granted step (atomic storage only) a copy of the store is opened
	// cold and every branch must be replayable at that very moment.
	ProbeEvery int `json:"probe_every,omitempty"`
	// Sequential drain: after the schedule, the remaining clients run to completion one after the other (client of
	// the last run first) instead of round-robin; used by the exhaustive <=2-preemption enumeration.
	SeqDrain bool `json:"seq_drain,omitempty"`
}

func genOp(t *rapid.T) Op {
	switch rapid.IntRange(0, 15).Draw(t, "kind") {
	case 14, 15:
		return Op{Kind: "merge", Pool: "p", Branch: "b", Other: "main"}
	case 0, 1, 2:
		return Op{Kind: "load", Pool: "p", Branch: rapid.SampledFrom([]string{"main", "main", "b"}).Draw(t, "br"), Batch: rapid.IntRange(0, 2).Draw(t, "batch")}
	case 3, 4, 5:
		return Op{Kind: "delete", Pool: "p", Branch: "main", Pick: rapid.SliceOfN(rapid.IntRange(0, 3), 1, 2).Draw(t, "pick")}
	case 6, 7:
		return Op{Kind: "compact", Pool: "p", Branch: "main", Pick: rapid.SliceOfN(rapid.IntRange(0, 3), 2, 3).Draw(t, "pick")}
	case 8:
		return Op{Kind: "addvec", Pool: "p", Branch: "main", Pick: []int{rapid.IntRange(0, 3).Draw(t, "pick")}}
	case 9:
		return Op{Kind: "createpool", Pool: rapid.SampledFrom([]string{"n", "n", "m"}).Draw(t, "name")}
	case 10:
		return Op{Kind: "renamepool", Pool: rapid.SampledFrom([]string{"q", "p"}).Draw(t, "old"), Other: rapid.SampledFrom([]string{"n", "r"}).Draw(t, "new")}
	case 11:
		return Op{Kind: "droppool", Pool: "q"}
	case 12:
		return Op{Kind: "createbranch", Pool: "p", Branch: rapid.SampledFrom([]string{"c", "c", "d"}).Draw(t, "name")}
	default:
		return Op{Kind: "dropbranch", Pool: "p", Branch: rapid.SampledFrom([]string{"b", "c"}).Draw(t, "name")}
	}
}

func genCase(t *rapid.T) Case {
	c := Case{File: rapid.Bool().Draw(t, "file"), Initial: rapid.IntRange(2, 4).Draw(t, "initial")}
	for i := 0; i < 3; i++ {
		var sb strings.Builder
		n := rapid.IntRange(1, 3).Draw(t, "n")
		for j := 0; j < n; j++ {
			fmt.Fprintf(&sb, "{k:%d,b:%d} ", rapid.IntRange(0, 9).Draw(t, "k"), i)
		}
		c.Batches = append(c.Batches, gen.SeqFromZSON(sb.String()))
	}
	nc := rapid.IntRange(2, 3).Draw(t, "nclients")
	for i := 0; i < nc; i++ {
		var ops []Op
		n := rapid.IntRange(1, 2).Draw(t, "nops")
		for j := 0; j < n; j++ {
			ops = append(ops, genOp(t))
		}
		c.Clients = append(c.Clients, ops)
	}
	c.ProbeEvery = rapid.SampledFrom([]int{0, 3, 5, 8}).Draw(t, "probe")
	nr := rapid.IntRange(2, 14).Draw(t, "nruns")
	for i := 0; i < nr; i++ {
		c.Schedule = append(c.Schedule, rapid.IntRange(0, nc-1).Draw(t, "client"), rapid.IntRange(1, 10).Draw(t, "run"))
	}
	return c
}

// ---------- sequential specification (model)

type item struct {
	name string // "obj:<id>" for initial objects, "load:<client>.<op>" for loads, "compact:<client>.<op>"
	vals []zed.Value
}

type mpool struct {
	name     string
	branches map[string]map[string]bool // branch -> live item names
}

// baseObjs are the item names of the initial objects of pool p: the content of the common ancestor of main and b.
var baseObjs []string

// identity of the pool an operation addresses: the initial pools are addressed by id (resolved before the
// concurrent phase, like object ids), so they stay addressable after a rename.
func ident(e *event) string {
	if e.op.Kind == "createpool" {
		return fmt.Sprintf("new:%d.%d", e.client, e.idx)
	}
	return e.op.Pool
}

func (m *model) named(name string) bool {
	for _, p := range m.pools {
		if p.name == name {
			return true
		}
	}
	return false
}

type model struct {
	pools map[string]*mpool
	// captured: split-merge mode only - the live set of the child branch as read by the first half of a merge
	captured map[*event]map[string]bool
}

func (m *model) clone() *model {
	c := &model{pools: map[string]*mpool{}}
	if m.captured != nil {
		c.captured = map[*event]map[string]bool{}
		for k, v := range m.captured {
			c.captured[k] = v // never modified after capture
		}
	}
	for pn, p := range m.pools {
		cp := &mpool{name: p.name, branches: map[string]map[string]bool{}}
		for bn, b := range p.branches {
			cb := map[string]bool{}
			for k := range b {
				cb[k] = true
			}
			cp.branches[bn] = cb
		}
		c.pools[pn] = cp
	}
	return c
}

type event struct {
	client, idx int
	op          Op
	ids         []string // resolved object item names
	invoke, ret int      // scheduler time (number of grants) at invocation and return
	err         error
	commit      ksuid.KSUID
	newPool     ksuid.KSUID // createpool: id of the created pool
}

func (e *event) name() string { return fmt.Sprintf("c%d.%d:%s", e.client, e.idx, e.op.String()) }

// applyHalf runs one half of a merge in the split-merge specification: half 1 reads the child branch's content,
// half 2 applies the difference between that content and the common ancestor to the parent as it is then.
func (m *model) applyHalf(e *event, half int) bool {
	p, ok := m.pools[e.op.Pool]
	if !ok {
		return false
	}
	if half == 1 {
		child, ok1 := p.branches[e.op.Branch]
		_, ok2 := p.branches[e.op.Other]
		if !ok1 || !ok2 {
			return false
		}
		cp := map[string]bool{}
		for k := range child {
			cp[k] = true
		}
		if m.captured == nil {
			m.captured = map[*event]map[string]bool{}
		}
		m.captured[e] = cp
		return true
	}
	child, ok1 := m.captured[e]
	parent, ok2 := p.branches[e.op.Other]
	if !ok1 || !ok2 {
		return false
	}
	return mergeInto(child, parent)
}

// mergeInto applies (child - common ancestor) to parent; false = the merge must fail.
func mergeInto(child, parent map[string]bool) bool {
	base := map[string]bool{}
	for _, id := range baseObjs {
		base[id] = true
	}
	changed := false
	// everything the child deleted since the common ancestor must still be in the parent (else: delete conflict)
	for id := range base {
		if !child[id] {
			if !parent[id] {
				return false
			}
			changed = true
		}
	}
	for id := range child {
		if !base[id] && !parent[id] {
			changed = true
		}
	}
	if !changed {
		return false // "difference is empty"
	}
	for id := range base {
		if !child[id] {
			delete(parent, id)
		}
	}
	for id := range child {
		if !base[id] {
			parent[id] = true
		}
	}
	return true
}

// apply runs the operation in the sequential specification; ok=false means it must fail there.
func (m *model) apply(e *event) bool {
	op := e.op
	switch op.Kind {
	case "createpool":
		if m.named(op.Pool) {
			return false
		}
		m.pools[ident(e)] = &mpool{name: op.Pool, branches: map[string]map[string]bool{"main": {}}}
		return true
	case "renamepool":
		p, ok := m.pools[op.Pool]
		if !ok || m.named(op.Other) {
			return false
		}
		p.name = op.Other
		return true
	case "droppool":
		if _, ok := m.pools[op.Pool]; !ok {
			return false
		}
		delete(m.pools, op.Pool)
		return true
	}
	p, ok := m.pools[op.Pool]
	if !ok {
		return false
	}
	switch op.Kind {
	case "createbranch":
		if _, ok := p.branches[op.Branch]; ok {
			return false
		}
		// the branch is created at the initial tip of main (resolved before the concurrent phase)
		nb := map[string]bool{}
		for _, id := range e.ids {
			nb[id] = true
		}
		p.branches[op.Branch] = nb
		return true
	case "dropbranch":
		if _, ok := p.branches[op.Branch]; !ok {
			return false
		}
		delete(p.branches, op.Branch)
		return true
	}
	if op.Kind == "merge" {
		child, ok1 := p.branches[op.Branch]
		parent, ok2 := p.branches[op.Other]
		if !ok1 || !ok2 {
			return false
		}
		return mergeInto(child, parent)
	}
	b, ok := p.branches[op.Branch]
	if !ok {
		return false
	}
	switch op.Kind {
	case "load":
		b[fmt.Sprintf("load:%d.%d", e.client, e.idx)] = true
		return true
	case "delete", "compact":
		for _, id := range e.ids {
			if !b[id] {
				return false
			}
		}
		for _, id := range e.ids {
			delete(b, id)
		}
		if op.Kind == "compact" {
			b[fmt.Sprintf("compact:%d.%d", e.client, e.idx)] = true
		}
		return true
	case "addvec":
		for _, id := range e.ids {
			if !b[id] {
				return false
			}
		}
		return true
	}
	return false
}

// ---------- running one case

type clientRun struct {
	lk     *lakeh.Lake
	events []*event
}

func runCase(c Case) *vt.Outcome {
	o := &vt.Outcome{}
	ctx := context.Background()
	mode := memstore.Atomic
	if c.File {
		mode = memstore.File
	}
	o.Label("mode:" + mode.String())
	store := memstore.NewStore()
	setup, err := lakeh.Create(ctx, store, mode, nil)
	if err != nil {
		o.Fail = fail("C12/setup", "%v", err)
		return o
	}
	pool, err := setup.CreatePool(ctx, lakeh.PoolSpec{Name: "p", Key: []string{"k"}, Thresh: 40})
	if err == nil {
		_, err = setup.CreatePool(ctx, lakeh.PoolSpec{Name: "q", Key: []string{"k"}})
	}
	if err != nil {
		o.Fail = fail("C12/setup", "%v", err)
		return o
	}
	for i := 0; i < c.Initial; i++ {
		b := c.Batches[i%len(c.Batches)]
		if _, err := setup.Load(ctx, pool, "main", b.Zctx, b.Vals); err != nil {
			o.Fail = fail("C12/setup", "%v", err)
			return o
		}
	}
	tip, _ := setup.Tip(ctx, pool, "main")
	if err := setup.API.CreateBranch(ctx, pool, "b", tip); err != nil {
		o.Fail = fail("C12/setup", "%v", err)
		return o
	}
	// branch b diverges from main: it deletes the first initial object and loads a batch of its own, so that a
	// merge of b into main both adds and deletes, and contends with deletes/compactions of that object on main
	{
		objs0, _, err := setup.Objects(ctx, pool, tip)
		if err != nil || len(objs0) == 0 {
			o.Fail = fail("C12/setup", "%v", err)
			return o
		}
		first := objs0[0].ID
		for _, ob := range objs0 {
			if ob.ID.String() < first.String() {
				first = ob.ID
			}
		}
		if _, err := setup.API.Delete(ctx, pool, "b", []ksuid.KSUID{first}, lakeh.Msg); err != nil {
			o.Fail = fail("C12/setup", "%v", err)
			return o
		}
		bb := c.Batches[2%len(c.Batches)]
		if _, err := setup.Load(ctx, pool, "b", bb.Zctx, bb.Vals); err != nil {
			o.Fail = fail("C12/setup", "%v", err)
			return o
		}
	}
	zctx := zed.NewContext()
	objs, _, err := setup.Objects(ctx, pool, tip)
	if err != nil {
		o.Fail = fail("C12/setup", "%v", err)
		return o
	}
	var ids []ksuid.KSUID
	baseObjs = baseObjs[:0]
	items := map[string]*item{}
	for _, ob := range objs {
		ids = append(ids, ob.ID)
		vals, err := setup.ReadObject(ctx, pool, ob, zctx)
		if err != nil {
			o.Fail = fail("C12/setup", "%v", err)
			return o
		}
		items["obj:"+ob.ID.String()] = &item{name: "obj:" + ob.ID.String(), vals: vals}
	}
	sort.Slice(ids, func(i, j int) bool { return ids[i].String() < ids[j].String() })
	init := &model{pools: map[string]*mpool{"p": {name: "p", branches: map[string]map[string]bool{"main": {}, "b": {}}}, "q": {name: "q", branches: map[string]map[string]bool{"main": {}}}}}
	qID, err := setup.API.PoolID(ctx, "q")
	if err != nil {
		o.Fail = fail("C12/setup", "%v", err)
		return o
	}
	poolIDs := map[string]ksuid.KSUID{"p": pool, "q": qID}
	for i, id := range ids {
		init.pools["p"].branches["main"]["obj:"+id.String()] = true
		if i > 0 { // b deleted the first (lowest id) initial object ...
			init.pools["p"].branches["b"]["obj:"+id.String()] = true
		}
		baseObjs = append(baseObjs, "obj:"+id.String())
	}
	// ... and loaded a batch of its own
	init.pools["p"].branches["b"]["bsetup"] = true
	items["bsetup"] = &item{vals: lakeh.Translate(zctx, c.Batches[2%len(c.Batches)].Vals)}
	// clients
	gate := memstore.NewGate()
	var now = func() int { return 0 }
	var mu sync.Mutex
	granted := 0
	now = func() int { mu.Lock(); defer mu.Unlock(); return granted }
	runs := make([]*clientRun, len(c.Clients))
	for ci, ops := range c.Clients {
		lk, err := lakeh.OpenClient(ctx, store, mode, nil, ci)
		if err != nil {
			o.Fail = fail("C12/setup", "%v", err)
			return o
		}
		cr := &clientRun{lk: lk}
		for oi, op := range ops {
			e := &event{client: ci, idx: oi, op: op}
			switch op.Kind {
			case "delete", "compact", "addvec":
				min := 1
				if op.Kind == "compact" {
					min = 2
				}
				seen := map[int]bool{}
				for _, p := range op.Pick {
					if i := p % len(ids); !seen[i] {
						seen[i] = true
						e.ids = append(e.ids, "obj:"+ids[i].String())
					}
				}
				for i := 0; len(e.ids) < min && i < len(ids); i++ {
					if !seen[i] {
						seen[i] = true
						e.ids = append(e.ids, "obj:"+ids[i].String())
					}
				}
				if len(e.ids) < min {
					continue
				}
			}
			if op.Kind == "createbranch" {
				for _, id := range ids {
					e.ids = append(e.ids, "obj:"+id.String())
				}
			}
			switch op.Kind {
			case "load":
				items[fmt.Sprintf("load:%d.%d", ci, oi)] = &item{vals: lakeh.Translate(zctx, c.Batches[op.Batch%len(c.Batches)].Vals)}
			case "compact":
				var vals []zed.Value
				for _, id := range e.ids {
					vals = append(vals, items[id].vals...)
				}
				items[fmt.Sprintf("compact:%d.%d", ci, oi)] = &item{vals: vals}
			}
			cr.events = append(cr.events, e)
		}
		runs[ci] = cr
	}
	for ci, cr := range runs {
		cr.lk.Engine.Hook = gate
		gate.Start(ci)
		go func(ci int, cr *clientRun) {
			defer gate.Finish(ci)
			for _, e := range cr.events {
				e.invoke = now()
				e.commit, e.err = perform(ctx, cr.lk, &c, e, poolIDs, tip)
				e.ret = now()
			}
		}(ci, cr)
	}
	// scheduler
	nc := len(runs)
	done := func(ci int) bool { return gate.Done(ci) }
	allDone := func() bool {
		for ci := 0; ci < nc; ci++ {
			if !done(ci) {
				return false
			}
		}
		return true
	}
	lastPath := make([]string, nc)
	spin := make([]int, nc)
	var momentFail *vt.Failure
	probes := 0
	preemptions := 0
	grant := func(ci int) bool {
		op := gate.Step(ci)
		if op == nil {
			return false
		}
		mu.Lock()
		granted++
		g := granted
		mu.Unlock()
		if c.ProbeEvery > 0 && mode == memstore.Atomic && momentFail == nil && op.Mutating() && g%c.ProbeEvery == 0 {
			momentFail = probeMoment(ctx, store.Clone(), mode, g, op)
			probes++
		}
		if op.Kind == "get" && (op.Class == "HEAD" || op.Class == "TAIL") && lastPath[ci] == op.Path {
			spin[ci]++
		} else {
			spin[ci] = 0
		}
		lastPath[ci] = op.Path
		for cj := 0; cj < nc; cj++ {
			if cj != ci {
				spin[cj] = 0
				lastPath[cj] = ""
			}
		}
		return true
	}
	other := func(ci int) int {
		for d := 1; d < nc; d++ {
			if cj := (ci + d) % nc; !done(cj) {
				return cj
			}
		}
		return ci
	}
	for i := 0; i+1 < len(c.Schedule) && !allDone(); i += 2 {
		ci := c.Schedule[i] % nc
		if done(ci) {
			ci = other(ci)
		}
		for k := 0; k < c.Schedule[i+1]; k++ {
			if spin[ci] >= 2 {
				// the client is busy-waiting on an unparseable HEAD/TAIL: let somebody else move (spin rule)
				ci = other(ci)
			}
			if !grant(ci) {
				break
			}
		}
		preemptions++
	}
	if c.SeqDrain {
		first := 0
		if len(c.Schedule) >= 2 {
			// the client that was preempted first resumes first: A runs i, B runs j, then A to the end, then B
			first = c.Schedule[0] % nc
		}
		for d := 0; d < nc; d++ {
			ci := (first + d) % nc
			for !done(ci) {
				if spin[ci] >= 2 && other(ci) != ci {
					// busy-waiting on a half-written HEAD of the other client: let that one move once
					grant(other(ci))
					continue
				}
				if !grant(ci) {
					break
				}
			}
		}
	}
	for ci := 0; !allDone(); ci = (ci + 1) % nc {
		if !done(ci) {
			if spin[ci] >= 2 && other(ci) != ci {
				continue
			}
			grant(ci)
		}
	}
	// ---------- oracles
	var acked, failed []*event
	overlap := false
	for _, cr := range runs {
		for _, e := range cr.events {
			if e.err == nil {
				acked = append(acked, e)
			} else {
				failed = append(failed, e)
				o.Label("op-failed:" + e.op.Kind)
			}
		}
	}
	for i, a := range acked {
		for _, b := range acked[i+1:] {
			if a.client != b.client && a.invoke < b.ret && b.invoke < a.ret && a.op.Pool == b.op.Pool {
				overlap = true
			}
		}
	}
	describe := func() string {
		var sb strings.Builder
		for _, cr := range runs {
			for _, e := range cr.events {
				fmt.Fprintf(&sb, "  %s [%d,%d] -> err=%v commit=%s\n", e.name(), e.invoke, e.ret, e.err, e.commit)
			}
		}
		fmt.Fprintf(&sb, "  grants: %s", strings.Join(gate.Trace, " | "))
		return sb.String()
	}
	// judge checks every end-of-history oracle on a store and returns the first failure.
	// With split set, a merge is two steps (read the child branch; apply to the parent), both inside its interval.
	judge := func(st *memstore.Store, split bool) *vt.Failure {
		cold, err := lakeh.Open(ctx, st, mode, nil)
		if err != nil {
			return fail("C12/reopen-failed", "%v\n%s", err, describe())
		}
		pools, err := cold.Root.ListPools(ctx)
		if err != nil {
			return fail("C12/pools-unreadable", "%v\n%s", err, describe())
		}
		type obsBranch struct {
			vals  []zed.Value
			chain map[ksuid.KSUID]int
		}
		type obsPool struct {
			name     string
			branches map[string]*obsBranch
		}
		// identity of observed pools: the initial pools by id, created pools by the id their createpool returned
		idOf := map[ksuid.KSUID]string{poolIDs["p"]: "p", poolIDs["q"]: "q"}
		for _, cr := range runs {
			for _, e := range cr.events {
				if e.op.Kind == "createpool" && e.newPool != ksuid.Nil {
					idOf[e.newPool] = ident(e)
				}
			}
		}
		observed := map[string]*obsPool{}
		names := map[string]int{}
		for _, pc := range pools {
			names[pc.Name]++
			if names[pc.Name] > 1 {
				return fail("C12/duplicate-pool-name", "two pools are named %q\n%s", pc.Name, describe())
			}
			identity, ok := idOf[pc.ID]
			if !ok {
				return fail("C12/failed-op-left-a-pool", "pool %q (%s) exists although no acknowledged operation created it\n%s", pc.Name, pc.ID, describe())
			}
			op := &obsPool{name: pc.Name, branches: map[string]*obsBranch{}}
			observed[identity] = op
			p, err := cold.Root.OpenPool(ctx, pc.ID)
			if err != nil {
				return fail("C12/pool-unreadable", "pool %s: %v\n%s", pc.Name, err, describe())
			}
			brs, err := p.ListBranches(ctx)
			if err != nil {
				return fail("C12/branches-unreadable", "pool %s: %v\n%s", pc.Name, err, describe())
			}
			bnames := map[string]int{}
			for _, b := range brs {
				bnames[b.Name]++
				if bnames[b.Name] > 1 {
					return fail("C12/duplicate-branch-name", "two branches of %s are named %q\n%s", pc.Name, b.Name, describe())
				}
				ob := &obsBranch{chain: map[ksuid.KSUID]int{}}
				if b.Commit != ksuid.Nil {
					if _, err := p.Snapshot(ctx, b.Commit); err != nil {
						return fail("C12/branch-unreplayable", "branch %s@%s cannot be replayed: %v\n%s", pc.Name, b.Name, err, describe())
					}
					zr := p.OpenCommitLog(ctx, zed.NewContext(), b.Commit)
					for n := 0; n < 200; n++ {
						v, err := zr.Read()
						if err != nil {
							return fail("C12/branch-unreplayable", "commit log of %s@%s: %v\n%s", pc.Name, b.Name, err, describe())
						}
						if v == nil {
							break
						}
						if idv := v.Deref("id"); idv != nil && len(idv.Bytes()) == 20 {
							id, _ := ksuid.FromBytes(idv.Bytes())
							ob.chain[id]++
						}
					}
				}
				vals, err := cold.Query(ctx, nil, fmt.Sprintf("from %s@%s", pc.ID, b.Name))
				if err != nil {
					return fail("C12/branch-unreadable", "scan of %s@%s: %v\n%s", pc.Name, b.Name, err, describe())
				}
				ob.vals = lakeh.Translate(zctx, vals)
				op.branches[b.Name] = ob
			}
		}
		// every acknowledged commit is in its branch's parent chain exactly once (unless the branch or pool was dropped)
		for _, e := range acked {
			if e.commit == ksuid.Nil {
				continue
			}
			dropped := false
			for _, x := range acked {
				if x.op.Kind == "dropbranch" && x.op.Branch == e.op.Branch && x.op.Pool == e.op.Pool || x.op.Kind == "droppool" && x.op.Pool == e.op.Pool {
					dropped = true
				}
			}
			op, ok := observed[e.op.Pool]
			if !ok {
				if !dropped {
					return fail("C12/acknowledged-commit-lost", "the pool of %s no longer exists\n%s", e.name(), describe())
				}
				continue
			}
			target := e.op.Branch
			if e.op.Kind == "merge" {
				target = e.op.Other
			}
			ob, ok := op.branches[target]
			if !ok {
				if !dropped {
					return fail("C12/acknowledged-commit-lost", "the branch of %s no longer exists\n%s", e.name(), describe())
				}
				continue
			}
			if n := ob.chain[e.commit]; n != 1 && !dropped {
				return fail("C12/acknowledged-commit-not-in-chain", "commit %s acknowledged to %s appears %d times in the parent chain of %s@%s\n%s", e.commit, e.name(), n, op.name, e.op.Branch, describe())
			}
		}
		// linearization search over acknowledged operations
		type step struct {
			e    *event
			half int // 0: whole operation; 1, 2: halves of a split merge
		}
		var steps []step
		for _, e := range acked {
			if split && e.op.Kind == "merge" {
				steps = append(steps, step{e, 1}, step{e, 2})
			} else {
				steps = append(steps, step{e, 0})
			}
		}
		n := len(steps)
		matches := func(m *model) string {
			if len(m.pools) != len(observed) {
				return fmt.Sprintf("pools %v vs observed %v", keys(m.pools), keys(observed))
			}
			for pn, p := range m.pools {
				ob, ok := observed[pn]
				if !ok {
					return "pool " + pn + " missing"
				}
				if ob.name != p.name {
					return fmt.Sprintf("pool %s is named %q, expected %q", pn, ob.name, p.name)
				}
				if len(p.branches) != len(ob.branches) {
					return fmt.Sprintf("branches of %s: %v vs observed %v", pn, keys(p.branches), keys(ob.branches))
				}
				for bn, live := range p.branches {
					obr, ok := ob.branches[bn]
					if !ok {
						return "branch " + pn + "@" + bn + " missing"
					}
					var want []zed.Value
					for name := range live {
						want = append(want, items[name].vals...)
					}
					if d := oracle.SameMultiset(want, obr.vals); d != "" {
						return fmt.Sprintf("content of %s@%s: %s", pn, bn, d)
					}
				}
			}
			return ""
		}
		perm := make([]int, 0, n)
		used := make([]bool, n)
		found := false
		bestWhy := ""
		var search func(m *model)
		search = func(m *model) {
			if found {
				return
			}
			if len(perm) == n {
				if why := matches(m); why == "" {
					found = true
				} else if bestWhy == "" {
					bestWhy = "final state differs: " + why
				}
				return
			}
			for i := 0; i < n && !found; i++ {
				if used[i] {
					continue
				}
				// real-time order: an unplaced op that returned before steps[i] was invoked must come first
				okRT := true
				for j := 0; j < n; j++ {
					if used[j] || j == i {
						continue
					}
					ej, ei := steps[j].e, steps[i].e
					before := ej.ret < ei.invoke
					if ej == ei {
						before = steps[j].half < steps[i].half
					} else if ej.client == ei.client {
						before = ej.idx < ei.idx
					}
					if before {
						okRT = false
					}
				}
				if !okRT {
					continue
				}
				m2 := m.clone()
				var applied bool
				if steps[i].half == 0 {
					applied = m2.apply(steps[i].e)
				} else {
					applied = m2.applyHalf(steps[i].e, steps[i].half)
				}
				if !applied {
					if bestWhy == "" {
						bestWhy = fmt.Sprintf("%s was acknowledged but cannot succeed at this point of any tried order", steps[i].e.name())
					}
					continue
				}
				used[i] = true
				perm = append(perm, i)
				search(m2)
				perm = perm[:len(perm)-1]
				used[i] = false
			}
		}
		search(init)
		if !found {
			kinds := map[string]bool{}
			for _, e := range acked {
				kinds[e.op.Kind] = true
			}
			return fail("C12/not-linearizable/"+strings.Join(keys(kinds), "+"), "no order of the %d acknowledged operations that respects real time explains the outcome (%s)\n%s", len(acked), bestWhy, describe())
		}
		return nil
	}
	if momentFail != nil {
		momentFail.Msg += "\n" + describe()
		o.Fail = momentFail
		return o
	}
	if probes > 0 {
		o.Label("moment-probes")
	}
	if len(acked) > 7 {
		return &vt.Outcome{Skip: "too-many-acked-ops"}
	}
	if f := judge(store, false); f != nil {
		// Known class: a merge is not atomic.  It reads the child branch's tip once when the operation starts and
		// commits the difference to the parent later (retrying on the parent only), so operations acknowledged in
		// between - a load on the child, the child's removal, a vector add on an object the merge deletes - can be
		// explained only if the merge is two steps.  If the outcome is explained with every merge split into
		// (read child, apply to parent), both inside the merge's interval, the failure is exactly this class.
		const sigMerge = "C12/merge-not-atomic/child-tip-read-at-start"
		if strings.HasPrefix(f.Sig, "C12/not-linearizable/") && strings.Contains(f.Sig, "merge") && judge(store, true) == nil {
			if vt.IsKnown(sigMerge) {
				o.Known = append(o.Known, sigMerge)
				o.Evals = granted
				return o
			}
			o.Fail = fail(sigMerge, "the outcome is explained only when a merge is taken as two steps (read the child branch's tip, later apply to the parent); as one atomic operation: %s: %s", f.Sig, f.Msg)
			return o
		}
		// Known class (file-like storage only): a client reads <commit>.snap.zng while another client is between the
		// truncating open and the write of that file, decodes the empty file as an empty snapshot, trusts it and later
		// persists its own wrong snapshot over it.  The commit objects and journals are intact: if every oracle holds
		// once the derived snapshot files are removed, the failure is exactly this class.
		const sigSnap = "C12/file/commit-snapshot-read-while-being-written"
		if mode == memstore.File {
			clean := store.Clone()
			poisoned := 0
			for _, path := range clean.Paths() {
				if memstore.Classify(path) == "commit-snap" {
					clean.Remove(path)
					poisoned++
				}
			}
			if poisoned > 0 && judge(clean, false) == nil {
				if vt.IsKnown(sigSnap) {
					o.Known = append(o.Known, sigSnap)
					o.Evals = granted
					return o
				}
				f = fail(sigSnap, "the outcome is explained once the persisted commit snapshot files are removed (they were poisoned by a read of a half-written snapshot); original failure: %s: %s", f.Sig, f.Msg)
			}
		}
		o.Fail = f
		return o
	}
	o.Evals = granted
	lastGrants = granted
	lastRet = lastRet[:0]
	for _, cr := range runs {
		r := 0
		for _, e := range cr.events {
			r = e.ret
		}
		lastRet = append(lastRet, r)
	}
	o.NonTrivial = overlap && preemptions >= 1
	if overlap {
		o.Label("overlapping-ops")
	}
	o.Sample = map[string]any{"mode": mode.String(), "clients": c.Clients, "grants": granted, "acked": len(acked), "failed": len(failed)}
	return o
}

func keys[V any](m map[string]V) []string {
	var out []string
	for k := range m {
		out = append(out, k)
	}
	sort.Strings(out)
	return out
}

func perform(ctx context.Context, lk *lakeh.Lake, c *Case, e *event, poolIDs map[string]ksuid.KSUID, mainTip ksuid.KSUID) (ksuid.KSUID, error) {
	op := e.op
	api := lk.API
	toIDs := func() []ksuid.KSUID {
		var out []ksuid.KSUID
		for _, s := range e.ids {
			id, _ := ksuid.Parse(strings.TrimPrefix(s, "obj:"))
			out = append(out, id)
		}
		return out
	}
	if op.Kind == "createpool" {
		id, err := lk.CreatePool(ctx, lakeh.PoolSpec{Name: op.Pool, Key: []string{"k"}})
		e.newPool = id
		return ksuid.Nil, err
	}
	id := poolIDs[op.Pool]
	switch op.Kind {
	case "renamepool":
		return ksuid.Nil, api.RenamePool(ctx, id, op.Other)
	case "droppool":
		return ksuid.Nil, api.RemovePool(ctx, id)
	case "createbranch":
		return ksuid.Nil, api.CreateBranch(ctx, id, op.Branch, mainTip)
	case "dropbranch":
		return ksuid.Nil, api.RemoveBranch(ctx, id, op.Branch)
	case "load":
		b := c.Batches[op.Batch%len(c.Batches)]
		return lk.Load(ctx, id, op.Branch, b.Zctx, b.Vals)
	case "delete":
		return api.Delete(ctx, id, op.Branch, toIDs(), lakeh.Msg)
	case "compact":
		return api.Compact(ctx, id, op.Branch, toIDs(), false, lakeh.Msg)
	case "addvec":
		return api.AddVectors(ctx, id.String(), op.Branch, toIDs(), lakeh.Msg)
	case "merge":
		return api.MergeBranch(ctx, id, op.Branch, op.Other, lakeh.Msg)
	}
	return ksuid.Nil, fmt.Errorf("unknown op %s", op.Kind)
}

// probeMoment opens a copy of the store as it is right after a granted step and requires every branch of every
// pool to be listed and replayable ("at every moment the action log of every branch can be replayed").
func probeMoment(ctx context.Context, st *memstore.Store, mode memstore.Mode, g int, after *memstore.Op) *vt.Failure {
	cold, err := lakeh.Open(ctx, st, mode, nil)
	if err != nil {
		return fail("C12/moment/lake-unreadable", "right after granted step %d (%s) the lake cannot be opened: %v", g, after, err)
	}
	pools, err := cold.Root.ListPools(ctx)
	if err != nil {
		return fail("C12/moment/pools-unreadable", "right after granted step %d (%s): %v", g, after, err)
	}
	for _, pc := range pools {
		p, err := cold.Root.OpenPool(ctx, pc.ID)
		if err != nil {
			// a pool is registered last on creation and its directory removed after deregistration on drop; a listed
			// pool must therefore be openable
			return fail("C12/moment/pool-unreadable", "right after granted step %d (%s) pool %s is listed but cannot be opened: %v", g, after, pc.Name, err)
		}
		brs, err := p.ListBranches(ctx)
		if err != nil {
			return fail("C12/moment/branches-unreadable", "right after granted step %d (%s) pool %s: %v", g, after, pc.Name, err)
		}
		for _, b := range brs {
			if b.Commit == ksuid.Nil {
				continue
			}
			if _, err := p.Snapshot(ctx, b.Commit); err != nil {
				return fail("C12/moment/branch-unreplayable", "right after granted step %d (%s) branch %s@%s (tip %s) cannot be replayed: %v", g, after, pc.Name, b.Name, b.Commit, err)
			}
		}
	}
	return nil
}

// lastGrants is the number of storage steps granted by the most recent runCase (used by the pair enumeration to
// size the schedule space; one case runs at a time in a process).
var lastGrants int
var lastRet []int

// ---------- exhaustive enumeration of <=2-preemption schedules for contending operation pairs

type PairCase struct {
	Pair   int  `json:"pair"`
	File   bool `json:"file_mode"`
	BFirst bool `json:"b_first"`
	Shard  int  `json:"shard"`
	Shards int  `json:"shards"`
}

var pairs = [][2]Op{
	{{Kind: "load", Pool: "p", Branch: "main", Batch: 0}, {Kind: "load", Pool: "p", Branch: "main", Batch: 1}},
	{{Kind: "load", Pool: "p", Branch: "main", Batch: 0}, {Kind: "delete", Pool: "p", Branch: "main", Pick: []int{0}}},
	{{Kind: "delete", Pool: "p", Branch: "main", Pick: []int{0, 1}}, {Kind: "delete", Pool: "p", Branch: "main", Pick: []int{1}}},
	{{Kind: "compact", Pool: "p", Branch: "main", Pick: []int{0, 1}}, {Kind: "delete", Pool: "p", Branch: "main", Pick: []int{1}}},
	{{Kind: "createpool", Pool: "n"}, {Kind: "createpool", Pool: "n"}},
	{{Kind: "renamepool", Pool: "q", Other: "n"}, {Kind: "droppool", Pool: "q"}},
	{{Kind: "createbranch", Pool: "p", Branch: "c"}, {Kind: "createbranch", Pool: "p", Branch: "c"}},
	{{Kind: "addvec", Pool: "p", Branch: "main", Pick: []int{0}}, {Kind: "compact", Pool: "p", Branch: "main", Pick: []int{0, 1}}},
	{{Kind: "dropbranch", Pool: "p", Branch: "b"}, {Kind: "load", Pool: "p", Branch: "b", Batch: 2}},
	{{Kind: "merge", Pool: "p", Branch: "b", Other: "main"}, {Kind: "delete", Pool: "p", Branch: "main", Pick: []int{0}}},
	{{Kind: "merge", Pool: "p", Branch: "b", Other: "main"}, {Kind: "load", Pool: "p", Branch: "main", Batch: 1}},
	{{Kind: "merge", Pool: "p", Branch: "b", Other: "main"}, {Kind: "compact", Pool: "p", Branch: "main", Pick: []int{0, 1}}},
}

func pairBase(pc PairCase) Case {
	c := Case{File: pc.File, Initial: 2, SeqDrain: true}
	c.Batches = []gen.Seq{gen.SeqFromZSON(`{k:1,b:0} {k:2,b:0}`), gen.SeqFromZSON(`{k:3,b:1}`), gen.SeqFromZSON(`{k:4,b:2} {k:5,b:2}`)}
	p := pairs[pc.Pair%len(pairs)]
	a, b := p[0], p[1]
	if pc.BFirst {
		a, b = b, a
	}
	c.Clients = [][]Op{{a}, {b}}
	return c
}

func runPairs(pc PairCase) *vt.Outcome {
	o := &vt.Outcome{}
	base := pairBase(pc)
	// size of the space: steps of A alone then B alone
	solo := base
	solo.Schedule = []int{0, 1 << 20}
	if r := runCase(solo); r.Fail != nil {
		return r
	}
	ta := lastGrants
	if len(lastRet) > 0 && lastRet[0] > 0 && lastRet[0] < lastGrants {
		ta = lastRet[0]
	}
	tb := lastGrants - ta
	if tb < 1 {
		tb = lastGrants
	}
	// a few extra steps on each side: contention (retries) makes operations longer than their solo runs
	ta, tb = min(ta+12, 300), min(tb+12, 300)
	n := 0
	for i := 0; i <= ta; i++ {
		for j := 1; j <= tb; j++ {
			n++
			if n%pc.Shards != pc.Shard {
				continue
			}
			c := base
			c.Schedule = []int{0, i, 1, j}
			if i == 0 {
				c.Schedule = []int{1, j, 0, 1 << 20}
			}
			r := runCase(c)
			o.Evals++
			if r.Fail != nil {
				r.Fail.Msg = fmt.Sprintf("pair %d (%s || %s), A runs %d steps, B runs %d steps, then A to the end, then B: %s", pc.Pair, base.Clients[0][0].String(), base.Clients[1][0].String(), i, j, r.Fail.Msg)
				o.Fail = r.Fail
				return o
			}
			o.Known = append(o.Known, r.Known...)
			if r.NonTrivial {
				o.Units = append(o.Units, fmt.Sprintf("%d/%v/%v/%d/%d", pc.Pair, pc.File, pc.BFirst, i, j))
			}
		}
	}
	o.Sample = map[string]any{"case": pc, "a": base.Clients[0][0], "b": base.Clients[1][0], "schedules_in_shard": o.Evals}
	return o
}

var pairCounter int

var pairProp = &vt.Prop[PairCase]{
	Name: "TestPairsExhaustive",
	Rule: "EXHAUSTIVE over schedules with at most 2 preemptions for 12 contending operation pairs (merge||delete(same object), merge||load, merge||compact, load||load, load||delete, delete||delete(overlapping ids), compact||delete, createpool||createpool(same name), renamepool||droppool, createbranch||createbranch(same name), addvec||compact, dropbranch||load) x both start orders x both storage modes: A runs i storage steps, B runs j steps, A runs to completion, B runs to completion, for every i and j; each schedule is judged by the same oracles as TestLinearizable. " +
		"A schedule is non-trivial when the two acknowledged operations overlapped in scheduler time; distinct = (pair, mode, order, i, j).",
	Gen: func(t *rapid.T) PairCase {
		shard, shards := 0, 1
		fmt.Sscan(os.Getenv("VERIF_SHARD"), &shard)
		fmt.Sscan(os.Getenv("VERIF_SHARDS"), &shards)
		if shards < 1 {
			shards = 1
		}
		n := pairCounter
		pairCounter++
		pc := PairCase{Pair: n % len(pairs), File: (n/len(pairs))%2 == 1, BFirst: (n/(2*len(pairs)))%2 == 1, Shard: shard, Shards: shards}
		if !vt.Thorough() {
			// quick tier: a 1/8 slice of each space, chosen by rapid
			pc.Shards = shards * 8
			pc.Shard = shard*8 + rapid.IntRange(0, 7).Draw(t, "slice")
		}
		return pc
	},
	Run: runPairs,
}

func TestPairsExhaustive(t *testing.T) {
	vt.SetExtra("TestPairsExhaustive", "exhaustive", vt.Thorough())
	vt.SetExtra("TestPairsExhaustive", "exhaustive_space", "thorough: all (i,j) two-preemption schedules of 12 pairs x 2 orders x 2 storage modes (48 checks per shard cover every combination); quick: a 1/8 slice of 12 combinations per shard")
	pairProp.Check(t)
}

var prop = &vt.Prop[Case]{
	Name: "TestLinearizable",
	Rule: "case = storage mode (atomic / file-like) x initial lake (pools p,q; p with 2..4 loaded objects and a branch b) x 2..3 clients, each a separate lake handle issuing 1..2 operations from {load, delete ids, compact ids, add vectors, create/rename/drop pool, create/drop branch} (object ids refer to the initial objects, so clients contend) x schedule of (client, run length) pairs: every storage step of every client is granted by the scheduler (spin rule: a client re-reading an unparseable HEAD is descheduled). " +
		"Afterwards, through a cold handle: pool and branch names are unique, every branch replays and scans, every acknowledged commit id is in its branch's parent chain exactly once, and some order of the acknowledged operations that respects real-time precedence (grant counts at invoke/return) is accepted by the sequential model and yields the observed pools, branches and per-branch value multisets (failed operations must leave no trace). " +
		"evaluations = granted storage steps; a case is non-trivial when two acknowledged operations of different clients on the same pool overlapped in scheduler time; distinct by case digest.",
	Gen: genCase,
	Run: runCase,
}

func init() { prop.Register(); pairProp.Register() }

func TestLinearizable(t *testing.T) { prop.Check(t) }
func TestReplay(t *testing.T)       { vt.TestReplay(t) }
