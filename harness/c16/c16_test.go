package c16

import (
	"context"
	"fmt"
	"os"
	"strconv"
	"strings"
	"testing"

	zed "github.com/brimdata/super"
	"github.com/brimdata/super/order"
	"github.com/brimdata/super/pkg/field"
	"github.com/brimdata/super/runtime/sam/expr"
	"github.com/segmentio/ksuid"
	"pgregory.net/rapid"

	"verif/gen"
	"verif/lakeh"
	"verif/memstore"
	"verif/oracle"
	"verif/qh"
	"verif/vt"
)

func TestMain(m *testing.M) { vt.Main(m) }

const sigNull = "C16/typed-null-key-pruned"

func fail(sig, format string, args ...any) *vt.Failure { return vt.Failf(sig, format, args...) }

// ---------- shared: compare pruned and unpruned execution of one filter

type env struct {
	// input holds the identities of all values in the pool (filled lazily by a full scan)
	input map[string]bool
	ctx   context.Context
	lk    *lakeh.Lake
	pool  ksuid.KSUID
	zctx  *zed.Context
	key   field.Path
	order order.Which
}

func translate(zctx *zed.Context, vals []zed.Value) []zed.Value {
	out := make([]zed.Value, len(vals))
	for i, v := range vals {
		typ, err := zctx.TranslateType(v.Type())
		if err != nil {
			panic(err)
		}
		out[i] = zed.NewValue(typ, v.Bytes()).Copy()
	}
	return out
}

type cmpResult struct {
	fail     *vt.Failure
	known    bool
	skipped  bool // the filter does not compile / errors identically on both sides
	pruned   bool // the pruned run read fewer data bytes or opened fewer objects
	matched  int
	total    int
	boundary bool
}

func keysOf(e *env, vals []zed.Value) []zed.Value {
	keyOf := expr.NewDottedExpr(e.zctx, e.key)
	ectx := expr.NewContext()
	out := make([]zed.Value, len(vals))
	for i, v := range vals {
		out[i] = keyOf.Eval(ectx, v).Copy()
	}
	return out
}

// compareFilter runs `from p | where P` (pruner + pushed-down filter) against
// `from p | yield this | where P` (no pruner, no pushdown: full scan filtered in memory).
func compareFilter(e *env, pred string) cmpResult {
	var res cmpResult
	b0, g0 := e.lk.Engine.DataBytesRead.Load(), e.lk.Engine.DataGets.Load()
	pruned, perr := e.lk.Query(e.ctx, nil, "from p | where "+pred)
	b1, g1 := e.lk.Engine.DataBytesRead.Load(), e.lk.Engine.DataGets.Load()
	full, ferr := e.lk.Query(e.ctx, nil, "from p | yield this | where "+pred)
	b2, g2 := e.lk.Engine.DataBytesRead.Load(), e.lk.Engine.DataGets.Load()
	if perr != nil || ferr != nil {
		if perr != nil && ferr != nil {
			res.skipped = true
			return res
		}
		res.fail = fail("C16/error-differs", "filter %q: pruned run error=%v, unpruned run error=%v", pred, perr, ferr)
		return res
	}
	res.pruned = (b1-b0) < (b2-b1) || (g1-g0) < (g2-g1)
	res.matched, res.total = len(full), 0
	pruned, full = translate(e.zctx, pruned), translate(e.zctx, full)
	// The `where` operator passes through error values when the predicate itself evaluates to a (non-missing)
	// error, while a filter pushed into the scanner drops such rows.  That difference is about filter push-down
	// (C07), not about pruning, so only values that are actually in the pool are compared here.
	if e.input == nil {
		e.input = map[string]bool{}
		all, err := e.lk.Query(e.ctx, nil, "from p | yield this")
		if err != nil {
			res.fail = fail("C16/scan-failed", "full scan failed: %v", err)
			return res
		}
		for _, v := range translate(e.zctx, all) {
			e.input[oracle.Key(v)] = true
		}
	}
	pruned, full = onlyInput(e, pruned), onlyInput(e, full)
	if d := oracle.SameMultiset(full, pruned); d != "" {
		// known class: values whose key is a typed null satisfy k<c / k<=c under the evaluator
		// but sit at the nulls-max end of the key range, so the pruner skips them
		missing := subtract(full, pruned)
		extra := subtract(pruned, full)
		if len(extra) == 0 && len(missing) > 0 {
			all := true
			for _, k := range keysOf(e, missing) {
				if !k.IsNull() || k.Type() == zed.TypeNull || k.IsError() {
					all = false
				}
			}
			if all {
				if vt.IsKnown(sigNull) {
					res.known = true
					return res
				}
				res.fail = fail(sigNull, "filter %q: pruned execution loses %d value(s) whose pool key is a typed null (e.g. %s) although the unpruned filter selects them",
					pred, len(missing), oracle.Show(missing[0]))
				return res
			}
		}
		res.fail = fail("C16/pruned-differs", "filter %q: pruned lake execution differs from full scan + filter: %s", pred, d)
		return res
	}
	// order: both in pool-key order => same key sequence
	kp, kf := keysOf(e, pruned), keysOf(e, full)
	cmp := expr.NewValueCompareFn(order.Asc, true)
	for i := range kp {
		a, b := kp[i], kf[i]
		if a.IsMissing() {
			a = zed.Null
		}
		if b.IsMissing() {
			b = zed.Null
		}
		if cmp(a, b) != 0 {
			res.fail = fail("C16/pruned-order", "filter %q: pruned result is not in the same key order as the unpruned one at %d: %s vs %s", pred, i, oracle.Show(pruned[i]), oracle.Show(full[i]))
			return res
		}
	}
	return res
}

func onlyInput(e *env, vals []zed.Value) []zed.Value {
	out := vals[:0:0]
	for _, v := range vals {
		if e.input[oracle.Key(v)] {
			out = append(out, v)
		}
	}
	return out
}

func subtract(a, b []zed.Value) []zed.Value {
	cnt := map[string]int{}
	for _, v := range b {
		cnt[oracle.Key(v)]++
	}
	var out []zed.Value
	for _, v := range a {
		k := oracle.Key(v)
		if cnt[k] > 0 {
			cnt[k]--
			continue
		}
		out = append(out, v)
	}
	return out
}

// ---------- (a) exhaustive over a small key domain

// domain in nulls-max ascending order; ties (2, 2., 2(uint64)) are adjacent
var domain = []string{`1`, `2`, `2.`, `2(uint64)`, `3`, `"a"`, `null(int64)`}

var literals = []string{"0", "1", "2", "3", "4", "2.", "2.5", `"a"`, `"b"`, "null"}

var ops = []string{"==", "!=", "<", "<=", ">", ">="}

func simplePreds() []string {
	var out []string
	for _, op := range ops {
		for _, c := range literals {
			out = append(out, fmt.Sprintf("k %s %s", op, c))
			out = append(out, fmt.Sprintf("%s %s k", c, op))
		}
	}
	return out
}

func compositePreds() []string {
	base := simplePreds()
	// a smaller literal set for depth 2 keeps the space at a few thousand
	var small []string
	for _, p := range base {
		if strings.Contains(p, "2.5") || strings.Contains(p, `"b"`) || strings.Contains(p, " 0") || strings.HasPrefix(p, "0 ") || strings.Contains(p, "4") {
			continue
		}
		small = append(small, p)
	}
	var out []string
	for _, p := range small {
		out = append(out, "not ("+p+")")
		out = append(out, p+` and v == "x"`)
		out = append(out, p+` or v == "x"`)
	}
	for i, p := range small {
		for j, q := range small {
			if (i+j)%3 != 0 { // every third pair: still ~1300 and/or combinations, deterministic
				continue
			}
			out = append(out, "("+p+") and ("+q+")")
			out = append(out, "("+p+") or ("+q+")")
		}
	}
	return out
}

type ExhCase struct {
	Shard  int  `json:"shard"`
	Shards int  `json:"shards"`
	Desc   bool `json:"desc"`
	Depth2 bool `json:"depth2"`
	File   bool `json:"file_mode"`
}

// buildDomainPool loads one object per (min <= mid <= max) triple of the domain (so every key range with every
// possible inner key exists as an object's {min,max}), plus one object holding the whole domain with a seek
// stride of 1 byte (one seek entry per value).
func buildDomainPool(ctx context.Context, desc, file bool) (*env, int, error) {
	mode := memstore.Atomic
	if file {
		mode = memstore.File
	}
	lk, err := lakeh.Create(ctx, memstore.NewStore(), mode, nil)
	if err != nil {
		return nil, 0, err
	}
	spec := lakeh.PoolSpec{Name: "p", Key: []string{"k"}, Desc: desc, Stride: 1}
	pool, err := lk.CreatePool(ctx, spec)
	if err != nil {
		return nil, 0, err
	}
	e := &env{ctx: ctx, lk: lk, pool: pool, zctx: zed.NewContext(), key: field.Path{"k"}, order: spec.Order()}
	n := 0
	load := func(keys ...string) error {
		var sb strings.Builder
		for i, k := range keys {
			fmt.Fprintf(&sb, "{k:%s,v:%q} ", k, []string{"x", "y"}[(n+i)%2])
		}
		s := gen.SeqFromZSON(sb.String())
		n++
		_, err := lk.Load(ctx, pool, "main", s.Zctx, s.Vals)
		return err
	}
	for i := range domain {
		for j := i; j < len(domain); j++ {
			for m := i; m <= j; m++ {
				if err := load(domain[i], domain[m], domain[j]); err != nil {
					return nil, 0, err
				}
			}
		}
	}
	if err := load(domain...); err != nil {
		return nil, 0, err
	}
	// a value whose key is missing and a non-record value
	s := gen.SeqFromZSON(`{v:"x"} "str"`)
	if _, err := lk.Load(ctx, pool, "main", s.Zctx, s.Vals); err != nil {
		return nil, 0, err
	}
	return e, n + 1, nil
}

func runExhaustive(c ExhCase) *vt.Outcome {
	o := &vt.Outcome{}
	ctx := context.Background()
	e, nobj, err := buildDomainPool(ctx, c.Desc, c.File)
	if err != nil {
		o.Fail = fail("C16/setup", "cannot build the domain pool: %v", err)
		return o
	}
	preds := simplePreds()
	if c.Depth2 {
		preds = compositePreds()
	}
	for i, p := range preds {
		if i%c.Shards != c.Shard {
			continue
		}
		r := compareFilter(e, p)
		o.Evals++
		if r.skipped {
			continue
		}
		if r.fail != nil {
			o.Fail = r.fail
			return o
		}
		if r.known {
			o.Known = append(o.Known, sigNull)
		}
		if r.pruned {
			o.Units = append(o.Units, fmt.Sprintf("desc=%v:%s", c.Desc, p))
		}
	}
	o.Label(fmt.Sprintf("objects:%d", nobj))
	o.Sample = map[string]any{"case": c, "predicates_in_shard": o.Evals, "first_predicates": preds[:min(6, len(preds))], "domain": domain}
	return o
}

var exhCounter int

var exh = &vt.Prop[ExhCase]{
	Name: "TestPrunerExhaustive",
	Rule: "EXHAUSTIVE over a small key domain D={1,2,2.,2(uint64),3,\"a\",null(int64)} (+ missing key, non-record value): the pool holds one object per triple min<=mid<=max of D (every key range with every inner key) plus one object with one seek entry per value (stride 1); " +
		"predicates: all `k op c` and `c op k` for op in {==,!=,<,<=,>,>=} and c in {0,1,2,3,4,2.,2.5,\"a\",\"b\",null} (depth 1) and not/and/or combinations incl. a non-key predicate (depth 2); asc and desc pools. " +
		"For every predicate `from p | where P` must equal `from p | yield this | where P` (multiset and key order). A predicate is non-trivial when the pruned run actually read fewer data bytes / opened fewer objects; distinct = (direction, predicate).",
	Gen: func(t *rapid.T) ExhCase {
		// The enumeration is split over shards by the driver; within a shard rapid only picks direction/depth/mode,
		// and every (direction, depth) combination is visited because checks >= 4 per shard.
		shard, _ := strconv.Atoi(os.Getenv("VERIF_SHARD"))
		shards, _ := strconv.Atoi(os.Getenv("VERIF_SHARDS"))
		if shards == 0 {
			shards = 1
		}
		c := ExhCase{Shard: shard, Shards: shards}
		// deterministic enumeration of (direction, depth, storage mode): the n-th case of this process
		n := exhCounter
		exhCounter++
		c.Desc = n&1 == 1
		c.Depth2 = n&2 == 2
		c.File = n&4 == 4
		if !vt.Thorough() && c.Depth2 {
			// quick tier: depth 2 is sampled (one slice of a 4x finer split, chosen by rapid)
			c.Shards = shards * 4
			c.Shard = shard*4 + rapid.IntRange(0, 3).Draw(t, "slice")
		}
		return c
	},
	Run: runExhaustive,
}

// ---------- (b) random pools x generated filters

type RndCase struct {
	Pool    lakeh.PoolSpec `json:"pool"`
	File    bool           `json:"file_mode"`
	Batches []gen.Seq      `json:"batches"`
	Preds   []string       `json:"preds"`
	Delete  string         `json:"delete_where"`
}

func genKeyVal(t *rapid.T) string {
	switch rapid.IntRange(0, 11).Draw(t, "kk") {
	case 0:
		return "null(int64)"
	case 1:
		return rapid.SampledFrom([]string{`"a"`, `"b"`, `""`}).Draw(t, "ks")
	case 2:
		return rapid.SampledFrom([]string{"0.5", "2.", "2.5", "-1.", "7."}).Draw(t, "kf")
	case 3:
		return fmt.Sprintf("%d(uint64)", rapid.IntRange(0, 9).Draw(t, "ku"))
	default:
		return strconv.Itoa(rapid.IntRange(-2, 12).Draw(t, "ki"))
	}
}

func genRndPred(t *rapid.T, depth int) string {
	if depth > 0 && rapid.IntRange(0, 2).Draw(t, "composite") == 0 {
		switch rapid.IntRange(0, 2).Draw(t, "ckind") {
		case 0:
			return "not (" + genRndPred(t, depth-1) + ")"
		case 1:
			return "(" + genRndPred(t, depth-1) + ") and (" + genRndPred(t, depth-1) + ")"
		default:
			return "(" + genRndPred(t, depth-1) + ") or (" + genRndPred(t, depth-1) + ")"
		}
	}
	if rapid.IntRange(0, 5).Draw(t, "nonkey") == 0 {
		return rapid.SampledFrom([]string{`v == "x"`, `v != "x"`, `has(v)`, `len(v) == 1`}).Draw(t, "nk")
	}
	op := rapid.SampledFrom(ops).Draw(t, "op")
	c := rapid.SampledFrom([]string{"-3", "-2", "0", "1", "2", "3", "5", "7", "11", "12", "13", "2.", "2.5", "6.5", `"a"`, `"b"`, `""`, "null"}).Draw(t, "c")
	if rapid.Bool().Draw(t, "lit-left") {
		return fmt.Sprintf("%s %s k", c, op)
	}
	return fmt.Sprintf("k %s %s", op, c)
}

func genRnd(t *rapid.T) RndCase {
	c := RndCase{
		Pool: lakeh.PoolSpec{Name: "p", Key: []string{"k"}, Desc: rapid.Bool().Draw(t, "desc"),
			Thresh: rapid.SampledFrom([]int64{1, 30, 100, 0}).Draw(t, "thresh"),
			Stride: rapid.SampledFrom([]int{1, 8, 40, 0}).Draw(t, "stride")},
		File: rapid.Bool().Draw(t, "file"),
	}
	maxVals := 25
	if vt.Thorough() {
		maxVals = 120
	}
	nb := rapid.IntRange(1, 4).Draw(t, "nb")
	for i := 0; i < nb; i++ {
		var sb strings.Builder
		n := rapid.IntRange(1, maxVals).Draw(t, "n")
		for j := 0; j < n; j++ {
			switch rapid.IntRange(0, 14).Draw(t, "shape") {
			case 0:
				fmt.Fprintf(&sb, "{v:%q} ", rapid.SampledFrom([]string{"x", "y"}).Draw(t, "v"))
			case 1:
				sb.WriteString(`"nonrecord" `)
			default:
				fmt.Fprintf(&sb, "{k:%s,v:%q} ", genKeyVal(t), rapid.SampledFrom([]string{"x", "y", "zz"}).Draw(t, "v"))
			}
		}
		c.Batches = append(c.Batches, gen.SeqFromZSON(sb.String()))
	}
	np := rapid.IntRange(1, 6).Draw(t, "np")
	for i := 0; i < np; i++ {
		c.Preds = append(c.Preds, genRndPred(t, 2))
	}
	c.Delete = genRndPred(t, 1)
	return c
}

func runRnd(c RndCase) *vt.Outcome {
	o := &vt.Outcome{}
	ctx := context.Background()
	mode := memstore.Atomic
	if c.File {
		mode = memstore.File
	}
	lk, err := lakeh.Create(ctx, memstore.NewStore(), mode, nil)
	if err != nil {
		o.Fail = fail("C16/setup", "%v", err)
		return o
	}
	pool, err := lk.CreatePool(ctx, c.Pool)
	if err != nil {
		o.Fail = fail("C16/setup", "%v", err)
		return o
	}
	e := &env{ctx: ctx, lk: lk, pool: pool, zctx: zed.NewContext(), key: field.Path{"k"}, order: c.Pool.Order()}
	var all []zed.Value
	for _, b := range c.Batches {
		if _, err := lk.Load(ctx, pool, "main", b.Zctx, b.Vals); err != nil {
			o.Fail = fail("C16/setup", "load: %v", err)
			return o
		}
		all = append(all, translate(e.zctx, b.Vals)...)
	}
	if c.Pool.Desc {
		o.Label("desc")
	}
	for _, p := range c.Preds {
		r := compareFilter(e, p)
		o.Evals++
		if r.skipped {
			o.Label("filter-error-both")
			continue
		}
		if r.fail != nil {
			o.Fail = r.fail
			return o
		}
		if r.known {
			o.Known = append(o.Known, sigNull)
		}
		if r.pruned {
			o.Label("pruned")
			o.Units = append(o.Units, p)
			if r.matched > 0 && r.matched < len(all) {
				o.Label("pruned-some-match")
			}
		}
	}
	// delete-where: remaining content = all - {values selected by the same filter in memory}
	matched, perr := qh.Run(e.zctx, all, "where "+c.Delete)
	_, derr := lk.API.DeleteWhere(ctx, pool, "main", c.Delete, lakeh.Msg)
	o.Evals++
	if perr != nil {
		return o
	}
	want := all
	if derr == nil {
		want = subtract(all, matched)
	} else if len(matched) > 0 && !strings.Contains(derr.Error(), "empty") {
		o.Fail = fail("C16/deletewhere-failed", "delete where %q failed although %d values match: %v", c.Delete, len(matched), derr)
		return o
	}
	got, err := lk.Query(ctx, nil, "from p | yield this")
	if err != nil {
		o.Fail = fail("C16/scan-failed", "scan after delete where %q: %v", c.Delete, err)
		return o
	}
	got = translate(e.zctx, got)
	if d := oracle.SameMultiset(want, got); d != "" {
		extra, missing := subtract(got, want), subtract(want, got)
		if len(missing) == 0 && len(extra) > 0 {
			allNull := true
			for _, k := range keysOf(e, extra) {
				if !k.IsNull() || k.Type() == zed.TypeNull || k.IsError() {
					allNull = false
				}
			}
			if allNull && vt.IsKnown(sigNull) {
				o.Known = append(o.Known, sigNull)
				return o
			}
			if allNull {
				o.Fail = fail(sigNull, "delete where %q keeps %d value(s) with a typed null key (e.g. %s) that `where` selects", c.Delete, len(extra), oracle.Show(extra[0]))
				return o
			}
		}
		o.Fail = fail("C16/deletewhere-differs", "after delete where %q the pool is not (all - values selected by the filter): %s", c.Delete, d)
		return o
	}
	o.Label("deletewhere-checked")
	return o
}

var rnd = &vt.Prop[RndCase]{
	Name: "TestPrunerRandom",
	Rule: "random pools (1..4 loads of up to 25 (thorough 120) values, keys int/float/uint/string/typed null/missing with duplicates, thresholds {1,30,100,default} and seek strides {1,8,40,default} so that loads split into many objects and seek entries, asc/desc, atomic/file storage) x 1..6 generated filters of depth<=2 over {k op c, c op k, not/and/or, non-key predicates}: " +
		"`from p | where P` must equal `from p | yield this | where P` (multiset and key order); plus one delete-where whose remaining content must equal all - (values the same filter selects in memory). " +
		"A filter is non-trivial when the pruned run read fewer data bytes or opened fewer objects than the unpruned run; distinct = (case digest, filter).",
	Gen: genRnd,
	Run: runRnd,
}

func init() { exh.Register(); rnd.Register() }

func TestPrunerExhaustive(t *testing.T) {
	vt.SetExtra("TestPrunerExhaustive", "exhaustive", vt.Thorough())
	vt.SetExtra("TestPrunerExhaustive", "exhaustive_space", "depth-1: 120 predicates x 2 directions fully enumerated in both tiers; depth-2: ~1900 predicates x 2 directions fully enumerated in the thorough tier, 1/4 sampled in quick")
	exh.Check(t)
}
func TestPrunerRandom(t *testing.T) { rnd.Check(t) }
func TestReplay(t *testing.T)       { vt.TestReplay(t) }
