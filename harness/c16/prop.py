PROP = dict(
    level="exploration",
    rule="C16: pruned lake execution vs full scan + the same filter",
    level_text="Exploration with an exhaustively enumerated sub-space: over a 7-key domain every key range/inner key is materialised as an object and every depth-1 predicate (both tiers) and depth-2 predicate (thorough tier) is executed pruned and unpruned through the real lake; beyond that, random pools x generated filters and delete-where. The whole property (all pools, all filters) is sampled.",
    level_note="Trusted: `from p | yield this | where P` as the unpruned reference (no pruner and no pushed-down filter), harness in-memory storage engine. The evaluator's semantics of P are not judged here, only pruned == unpruned.",
    technique="differential property-based testing (rapid) + exhaustive enumeration of a small predicate/range domain through the real lake path",
    assumptions=["the in-memory storage engine stands in for file/S3 storage", "pruning is observed through data bytes read / objects opened"],
    tests=[dict(name="TestPrunerExhaustive", quick=(8, 4), thorough=(16, 8)),
           dict(name="TestPrunerRandom", quick=(8, 60), thorough=(16, 400))],
)
