package c04

import (
	"bytes"
	"context"
	"encoding/json"
	"errors"
	"fmt"
	"os"
	"strings"
	"testing"

	zed "github.com/brimdata/super"
	"github.com/brimdata/super/compiler"
	"github.com/brimdata/super/compiler/ast"
	"github.com/brimdata/super/compiler/ast/dag"
	"github.com/brimdata/super/compiler/data"
	"github.com/brimdata/super/compiler/kernel"
	"github.com/brimdata/super/compiler/optimizer/demand"
	"github.com/brimdata/super/zbuf"
	"github.com/brimdata/super/zcode"
	"github.com/brimdata/super/zio"
	"github.com/brimdata/super/zio/vngio"
	"github.com/brimdata/super/zio/zjsonio"
	"github.com/brimdata/super/zio/zngio"
	"github.com/brimdata/super/zio/zsonio"
	"pgregory.net/rapid"

	"verif/gen"
	"verif/oracle"
	"verif/prog"
	"verif/vt"
)

func TestMain(m *testing.M) { vt.Main(m) }

// ZNG is one physical ZNG configuration.
type ZNG struct {
	Compress bool  `json:"compress"`
	Frame    int   `json:"frame"`    // writer frame threshold in bytes
	EOS      []int `json:"eos"`      // EndStream is called after these value positions (1-based counts)
	Threads  int   `json:"threads"`  // scanner threads
	ReadSize int   `json:"readsize"` // reader buffer size (0 = default)
}

// Case is one (program, input, set of ZNG configurations); the text and
// columnar encodings (ZSON = reference, ZJSON, VNG) are always included.
type Case struct {
	Program string    `json:"program"`
	Lead    string    `json:"lead"` // the leading filter/search of Program ("" if unknown)
	Meta    prog.Meta `json:"meta"`
	Input   gen.Seq   `json:"input"`
	ZNGs    []ZNG     `json:"zngs"`
}

func genCase(t *rapid.T) Case {
	maxLen := 30
	if vt.Thorough() {
		maxLen = 100
	}
	c := Case{Input: prog.DrawInput(t, prog.InputOpts{MaxLen: maxLen, Rich: prog.Chance(t, 75, "rich"), NonRecords: prog.Chance(t, 35, "nonrecords")})}
	schema := prog.Summarize(c.Input.Vals)
	p := prog.Gen(t, schema, prog.Options{LeadingFilter: true, NoFork: true, NoOver: true, NoLimit: true, MaxOps: 4, EndOrdered: 60})
	c.Program, c.Lead, c.Meta = p.Text, p.Lead, p.Meta
	n := 2 + prog.Uniform(t, 2, "nzng")
	for i := 0; i < n; i++ {
		z := ZNG{
			Compress: prog.Chance(t, 50, "compress"),
			Frame:    prog.Pick(t, []int{1, 1, 16, 64, 256, 4096, zngio.DefaultFrameThresh}, "frame"),
			Threads:  prog.Pick(t, []int{1, 2, 8}, "threads"),
			ReadSize: prog.Pick(t, []int{0, 0, 16, 100, 4096}, "readsize"),
		}
		if len(c.Input.Vals) > 1 && prog.Chance(t, 40, "eos?") {
			k := 1 + prog.Uniform(t, 3, "neos")
			for j := 0; j < k; j++ {
				z.EOS = append(z.EOS, 1+prog.Uniform(t, len(c.Input.Vals)-1, "eospos"))
			}
		}
		c.ZNGs = append(c.ZNGs, z)
	}
	return c
}

// ---- encodings

type encoding struct {
	name   string
	bytes  []byte
	open   func(zctx *zed.Context) (zio.Reader, func(), error)
	frames int // zng: number of values frames
	zng    bool
}

func writeAll(w zio.WriteCloser, vals []zed.Value) error {
	for _, v := range vals {
		if err := w.Write(v); err != nil {
			w.Close()
			return err
		}
	}
	return w.Close()
}

func encodeZNG(vals []zed.Value, z ZNG) ([]byte, error) {
	var buf bytes.Buffer
	w := zngio.NewWriterWithOpts(zio.NopCloser(&buf), zngio.WriterOpts{Compress: z.Compress, FrameThresh: max(1, z.Frame)})
	eos := map[int]bool{}
	for _, p := range z.EOS {
		eos[p] = true
	}
	for i, v := range vals {
		if err := w.Write(v); err != nil {
			return nil, err
		}
		if eos[i+1] {
			if err := w.EndStream(); err != nil {
				return nil, err
			}
		}
	}
	if err := w.Close(); err != nil {
		return nil, err
	}
	return buf.Bytes(), nil
}

func countFrames(b []byte) int {
	r := zngio.NewReaderWithOpts(zed.NewContext(), bytes.NewReader(b), zngio.ReaderOpts{Threads: 1})
	s, err := r.NewScanner(context.Background(), nil)
	if err != nil {
		return 0
	}
	n := 0
	for {
		batch, err := s.Pull(false)
		if err != nil || batch == nil {
			if _, ok := err.(*zbuf.Control); ok {
				continue
			}
			return n
		}
		n++
		batch.Unref()
	}
}

func encodings(c Case) ([]*encoding, error) {
	vals := c.Input.Vals
	var out []*encoding
	var zson bytes.Buffer
	if err := writeAll(zsonio.NewWriter(zio.NopCloser(&zson), zsonio.WriterOpts{}), vals); err != nil {
		return nil, err
	}
	zb := zson.Bytes()
	out = append(out, &encoding{name: "zson", bytes: zb, open: func(zctx *zed.Context) (zio.Reader, func(), error) {
		return zsonio.NewReader(zctx, bytes.NewReader(zb)), func() {}, nil
	}})
	var zjson bytes.Buffer
	if err := writeAll(zjsonio.NewWriter(zio.NopCloser(&zjson)), vals); err == nil {
		jb := zjson.Bytes()
		out = append(out, &encoding{name: "zjson", bytes: jb, open: func(zctx *zed.Context) (zio.Reader, func(), error) {
			return zjsonio.NewReader(zctx, bytes.NewReader(jb)), func() {}, nil
		}})
	}
	if len(vals) > 0 {
		var vng bytes.Buffer
		if err := writeAll(vngio.NewWriter(zio.NopCloser(&vng)), vals); err == nil {
			vb := vng.Bytes()
			out = append(out, &encoding{name: "vng", bytes: vb, open: func(zctx *zed.Context) (zio.Reader, func(), error) {
				r, err := vngio.NewReader(zctx, bytes.NewReader(vb), demand.All())
				return r, func() {}, err
			}})
		}
	}
	for i, z := range c.ZNGs {
		b, err := encodeZNG(vals, z)
		if err != nil {
			return nil, err
		}
		z := z
		out = append(out, &encoding{name: fmt.Sprintf("zng#%d", i), bytes: b, zng: true, frames: countFrames(b),
			open: func(zctx *zed.Context) (zio.Reader, func(), error) {
				r := zngio.NewReaderWithOpts(zctx, bytes.NewReader(b), zngio.ReaderOpts{Threads: max(1, z.Threads), Size: z.ReadSize})
				return r, func() { r.Close() }, nil
			}})
	}
	return out, nil
}

// readBack decodes an encoding without any query.
func readBack(e *encoding) ([]zed.Value, error) {
	r, done, err := e.open(zed.NewContext())
	if err != nil {
		return nil, err
	}
	defer done()
	var out []zed.Value
	for {
		v, err := r.Read()
		if err != nil {
			return out, err
		}
		if v == nil {
			return out, nil
		}
		out = append(out, v.Copy())
	}
}

// ---- running

type result struct {
	stage  string // "", "analyze", "optimize", "build", "run", "deadlock"
	err    error
	vals   []zed.Value
	filter dag.Expr // the filter pushed into the scan (optimized plan)
	zctx   *zed.Context
}

// run executes the program the way the query command does: analyse,
// optimize (the leading filter moves into the scan), build over the reader.
func run(seq ast.Seq, e *encoding) result { return runPrep(seq, e, nil) }

// leadingFiltersOnly reduces an analysed DAG to its source and the filters
// that directly follow it (everything else becomes pass): after Optimize that
// is exactly the predicate pushed into the scan.
func leadingFiltersOnly(seq dag.Seq) {
	i := 1
	for i < len(seq) {
		// (pass operators are removed before adjacent filters are merged)
		_, isFilter := seq[i].(*dag.Filter)
		_, isPass := seq[i].(*dag.Pass)
		if !isFilter && !isPass {
			break
		}
		i++
	}
	for ; i < len(seq); i++ {
		if _, ok := seq[i].(*dag.Output); ok && i == len(seq)-1 {
			break
		}
		seq[i] = dag.PassOp
	}
	if n := len(seq); n > 0 {
		if _, ok := seq[n-1].(*dag.Output); !ok {
			seq[n-1] = &dag.Output{Kind: "Output", Name: "main"}
		}
	}
}

func runPrep(seq ast.Seq, e *encoding, prep func(dag.Seq)) result {
	rt := prog.NewRuntime(zed.NewContext())
	job, err := compiler.NewJob(rt.Context, seq, data.NewSource(nil, nil), nil)
	if err != nil {
		rt.Cancel()
		return result{stage: "analyze", err: err}
	}
	if prep != nil {
		prep(job.Entry())
	}
	if _, ok := job.DefaultScan(); !ok {
		rt.Cancel()
		return result{stage: "analyze", err: errors.New("program has a source of its own")}
	}
	if err := job.Optimize(); err != nil {
		rt.Cancel()
		return result{stage: "optimize", err: err}
	}
	res := result{zctx: rt.Zctx}
	if scan, ok := job.DefaultScan(); ok {
		res.filter = scan.Filter
	}
	r, done, err := e.open(rt.Zctx)
	if err != nil {
		rt.Cancel()
		return result{stage: "open", err: err}
	}
	defer done()
	res.vals, res.err = prog.Exec(rt, job, r)
	switch {
	case res.err == nil:
	case errors.Is(res.err, prog.ErrDeadlock):
		res.stage = "deadlock"
	default:
		var be *prog.BuildError
		if errors.As(res.err, &be) {
			res.stage = "build"
		} else {
			res.stage = "run"
		}
	}
	return res
}

func zsonOf(vals []zed.Value) *encoding {
	var buf bytes.Buffer
	writeAll(zsonio.NewWriter(zio.NopCloser(&buf), zsonio.WriterOpts{}), vals)
	b := buf.Bytes()
	return &encoding{name: "zson", bytes: b, open: func(zctx *zed.Context) (zio.Reader, func(), error) {
		return zsonio.NewReader(zctx, bytes.NewReader(b)), func() {}, nil
	}}
}

func hasNestedRecordInContainer(vals []zed.Value) bool {
	var inContainer func(typ zed.Type, under bool) bool
	inContainer = func(typ zed.Type, under bool) bool {
		switch t := zed.TypeUnder(typ).(type) {
		case *zed.TypeRecord:
			if under {
				return true
			}
			for _, f := range t.Fields {
				if inContainer(f.Type, false) {
					return true
				}
			}
		case *zed.TypeArray:
			return inContainer(t.Type, true)
		case *zed.TypeSet:
			return inContainer(t.Type, true)
		case *zed.TypeMap:
			return inContainer(t.KeyType, true) || inContainer(t.ValType, true)
		case *zed.TypeError:
			return inContainer(t.Type, true)
		case *zed.TypeUnion:
			for _, m := range t.Types {
				if inContainer(m, true) {
					return true
				}
			}
		}
		return false
	}
	seen := map[zed.Type]bool{}
	for _, v := range vals {
		if seen[v.Type()] {
			continue
		}
		seen[v.Type()] = true
		if inContainer(v.Type(), false) {
			return true
		}
	}
	return false
}

func weirdFloat(typ zed.Type, body zcode.Bytes) bool {
	if !zed.IsFloat(typ.ID()) {
		return false
	}
	f := zed.DecodeFloat(body)
	return f != f || (f == 0 && 1/f < 0)
}

var showNone = os.Getenv("C04_SHOW_NONE") != ""

func runCase(c Case) *vt.Outcome {
	o := &vt.Outcome{}
	seq, _, err := compiler.Parse(c.Program)
	if err != nil {
		return &vt.Outcome{Skip: "parse-error"}
	}
	encs, err := encodings(c)
	if err != nil {
		return &vt.Outcome{Skip: "input-not-writable"}
	}
	// Only encodings that give the input back unchanged take part (what a
	// format does to values is the subject of C01-C03).
	var usable []*encoding
	for _, e := range encs {
		kind := strings.Split(e.name, "#")[0]
		back, err := readBack(e)
		if err != nil || oracle.Same(c.Input.Vals, back) != "" {
			if e.name == "zson" {
				return &vt.Outcome{Skip: "zson-does-not-round-trip-input"}
			}
			o.Label("encoding-excluded(round-trip):" + kind)
			continue
		}
		usable = append(usable, e)
	}
	ref := run(seq, usable[0])
	if ref.stage == "analyze" || ref.stage == "optimize" {
		return &vt.Outcome{Skip: "compile-error"}
	}
	compare := func(a, b []zed.Value) string {
		if c.Meta.Ordered {
			return oracle.Same(a, b)
		}
		return oracle.SameMultiset(a, b)
	}
	for _, f := range c.Meta.Features {
		o.Label("feature:" + f)
	}
	if c.Meta.Ordered {
		o.Label("compare:sequence")
	} else {
		o.Label("compare:multiset")
	}
	for _, v := range c.Input.Vals {
		if zed.TypeRecordOf(v.Type()) == nil {
			o.Label("top-level-non-record")
			break
		}
	}
	if hasNestedRecordInContainer(c.Input.Vals) {
		o.Label("nested-record-in-container")
	}
	// non-triviality: how selective is the pushed-down filter, does it have a buffer filter
	bufferFilter := false
	if ref.filter != nil {
		o.Label("filter-pushed")
		if bf, err := kernel.CompileBufferFilter(zed.NewContext(), ref.filter); err == nil && bf != nil {
			bufferFilter = true
			o.Label("bufferfilter-active")
		}
	}
	// the input values the leading filter accepts, according to the reference
	var leadRef result
	selective := false
	leadOK := false
	if ref.filter != nil {
		{
			leadRef = runPrep(seq, usable[0], leadingFiltersOnly)
			leadOK = leadRef.stage == ""
			if leadRef.stage == "" {
				if n := len(leadRef.vals); n > 0 && n < len(c.Input.Vals) {
					selective = true
					o.Label("filter-selective")
				} else if n == 0 {
					o.Label("filter-matches-none")
					if showNone {
						fmt.Printf("NONE n=%d lead: %s\n", len(c.Input.Vals), c.Lead)
					}
				} else {
					o.Label("filter-matches-all")
				}
			}
		}
	}
	multiFrame := false
	for _, e := range usable[1:] {
		kind := strings.Split(e.name, "#")[0]
		o.Label("encoding:" + kind)
		if e.zng && e.frames >= 3 {
			multiFrame = true
		}
		got := run(seq, e)
		if got.stage != ref.stage && (got.stage == "deadlock" || ref.stage == "deadlock") {
			// a deadlock that comes and goes with the goroutine schedule is not a matter of encoding
			if again := run(seq, e); again.stage != got.stage {
				return &vt.Outcome{Skip: "intermittent-deadlock"}
			}
		}
		if got.stage != ref.stage {
			o.Fail = vt.Failf("C04/"+kind+"/fails-differently", "zson: stage=%q err=%v; %s: stage=%q err=%v\nprogram: %s", ref.stage, ref.err, e.name, got.stage, got.err, c.Program)
			return o
		}
		if ref.stage != "" {
			continue
		}
		diff := compare(ref.vals, got.vals)
		if diff == "" {
			continue
		}
		if c.Meta.Ordered && oracle.SameMultiset(ref.vals, got.vals) == "" {
			weird := false
			for _, v := range ref.vals {
				weird = weird || oracle.HasLeaf(v, weirdFloat)
			}
			if weird {
				return &vt.Outcome{Skip: "float-tie-corner"}
			}
		}
		sig := "C04/" + kind + "/output-differs"
		msg := fmt.Sprintf("%s\nprogram: %s\nencoding %s %s\nzson -> %d values, %s -> %d values", diff, c.Program, e.name, describe(c, e), len(ref.vals), e.name, len(got.vals))
		// Pinpoint: which input values does the leading filter lose in this encoding?
		if leadOK {
			if lg := runPrep(seq, e, leadingFiltersOnly); lg.stage == "" {
				lost := prog.MultisetMinus(leadRef.vals, lg.vals)
				extra := prog.MultisetMinus(lg.vals, leadRef.vals)
				if len(lost)+len(extra) > 0 {
					sig = "C04/" + kind + "/leading-filter-selects-differently"
					msg += fmt.Sprintf("\nleading filter(s): %d input values lost, %d extra in %s", len(lost), len(extra), e.name)
					for i, v := range lost {
						if i < 3 {
							msg += "\n  lost: " + oracle.Show(v)
						}
					}
				}
				if class := prog.BufferFilterLossClass(lg.filter, lost); e.zng && len(extra) == 0 && class != "" {
					// Known false negatives of the ZNG buffer filter.  The rest of the
					// program must still agree on the values that did get through:
					// program(zson of those) == program(zng).
					sig = "C04/zng-bufferfilter/" + class
					if vt.IsKnown(sig) {
						exp := run(seq, zsonOf(lg.vals))
						if exp.stage == "" && compare(exp.vals, got.vals) == "" {
							o.Known = append(o.Known, sig)
							continue
						}
						sig = "C04/" + kind + "/output-differs-beyond-known-bufferfilter-loss"
					}
				}
			}
		}
		o.Fail = vt.Failf(sig, "%s", msg)
		return o
	}
	if ref.stage != "" {
		reason := ref.stage + "-fails-in-every-encoding"
		if prog.IsPanic(ref.err) {
			reason = "panic-in-every-encoding"
		}
		return &vt.Outcome{Skip: reason}
	}
	if multiFrame {
		o.Label("zng-frames>=3")
	}
	if multiFrame && selective {
		o.Label("frame-skipped-possible")
	}
	o.NonTrivial = multiFrame && bufferFilter && selective
	return o
}

func describe(c Case, e *encoding) string {
	if !e.zng {
		return ""
	}
	var i int
	fmt.Sscanf(e.name, "zng#%d", &i)
	b, _ := json.Marshal(c.ZNGs[i])
	return fmt.Sprintf("%s frames=%d", b, e.frames)
}

var prop = &vt.Prop[Case]{
	Name: "TestEncodingIndependence",
	Rule: "case = (program with a leading filter/search followed by 0..3 operators of the filter/type-function/shaping/sort/aggregation grammar (no fork/join/over), generated input rich in records nested inside arrays/sets/maps/unions/errors, type values, named types; 2..3 ZNG configurations (compression, frame threshold 1..default, EndStream positions, threads 1/2/8, read size)); " +
		"the program is run the way the query command runs it (Optimize pushes the leading filter into the scan) over ZSON (reference: no scanner pushdown), ZJSON, VNG and each ZNG configuration; outputs must be the same sequence (ordered programs) or multiset. Encodings that do not give the input back unchanged are left out (C01-C03). " +
		"Non-trivial = some ZNG configuration has >= 3 value frames, kernel.CompileBufferFilter is non-nil for the pushed filter and the leading filter accepts some but not all input values.",
	Gen: genCase,
	Run: runCase,
}

func init() { prop.Register() }

func TestEncodingIndependence(t *testing.T) { prop.Check(t) }
func TestReplay(t *testing.T)               { vt.TestReplay(t) }
