package c04

import (
	"encoding/json"
	"os"
	"path/filepath"
	"testing"

	"verif/gen"
	"verif/prog"
)

// literal minimal cases of the findings (written to /verif/replays/C04 by
// VERIF_WRITE_REPLAYS=1 go test -run TestWriteKnownReplays)
var literalCases = map[string]struct {
	sig    string
	expect string
	c      Case
}{
	"known-C04-bufferfilter-nested-fieldname": {
		sig: "C04/zng-bufferfilter/search-fieldname-inside-container", expect: "known",
		c: Case{Program: "foo", Lead: "foo", Meta: prog.Meta{Ordered: true, Deterministic: true},
			Input: gen.SeqFromZSON(`{a:[{foo:1}]} {a:[{bar:2}]}`),
			ZNGs:  []ZNG{{Frame: 1, Threads: 1}, {Frame: 1, Threads: 2, Compress: true}}},
	},
	"known-C04-bufferfilter-null-equals-false": {
		sig: "C04/zng-bufferfilter/null-equals-false-literal", expect: "known",
		c: Case{Program: "j==false", Lead: "j==false", Meta: prog.Meta{Ordered: true, Deterministic: true},
			Input: gen.SeqFromZSON(`{j:null(bool),a:1} {j:true,a:1}`),
			ZNGs:  []ZNG{{Frame: 1, Threads: 1}}},
	},
}

func TestWriteKnownReplays(t *testing.T) {
	for name, lc := range literalCases {
		o := runCase(lc.c)
		got := ""
		if o.Fail != nil {
			got = o.Fail.Sig
		}
		for _, k := range o.Known {
			got = k
		}
		t.Logf("%s: skip=%q sig=%q (want %q) labels=%v", name, o.Skip, got, lc.sig, o.Labels)
		if got != lc.sig {
			t.Errorf("%s does not reproduce %s", name, lc.sig)
		}
		if os.Getenv("VERIF_WRITE_REPLAYS") == "" {
			continue
		}
		raw, _ := json.Marshal(lc.c)
		b, _ := json.MarshalIndent(map[string]any{"test": prop.Name, "sig": lc.sig, "expect": lc.expect, "case": json.RawMessage(raw)}, "", " ")
		os.MkdirAll("/verif/replays/C04", 0o755)
		if err := os.WriteFile(filepath.Join("/verif/replays/C04", name+".json"), append(b, '\n'), 0o644); err != nil {
			t.Fatal(err)
		}
	}
}
