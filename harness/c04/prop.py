PROP = dict(
        pkg="c04", level="exploration",
        rule="C04: the same program over the same values presented as ZSON, ZJSON, VNG and ZNG (compression, frame size, end-of-stream positions, threads, read size) gives the same output",
        assumptions=[
            "the ZSON run is the reference (its reader has no scanner pushdown); an encoding whose reader does not give the generated input back unchanged is left out of the case (format round-trip defects belong to C01-C03; -0.0, non-finite floats, non-NFC strings and IPv6 map values starting with '::' are kept out of the inputs for that reason)",
            "programs come from the filter/search + type-function + shaping + sort + aggregation sub-grammar (always a leading filter/search; no fork/switch/join/over, no `with -limit`)",
        ],
        level_text="Property-based differential test over physical encodings: one program, one value sequence, several readers; sequence or multiset equality chosen by program metadata.",
        level_note="Trusted: the ZSON reader/writer for the reference run (checked per case by reading the input back), the harness's order/determinism metadata. Not covered: CSV/JSON/Parquet/Arrows inputs (they do not preserve the values), GOMAXPROCS sweeps.",
        technique="property-based testing (rapid), differential oracle; per-value pinpointing of the leading filter when outputs differ",
        tests=[dict(name="TestEncodingIndependence", quick=(8, 250), thorough=(16, 1500))],
)
