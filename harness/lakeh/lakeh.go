// Package lakeh wraps a lake over a memstore engine for the lake properties
// (C08, C09, C12-C17): creation, reopening with cold caches, loading values,
// running queries, listing objects and reading single objects.
package lakeh

import (
	"context"
	"errors"
	"fmt"

	zed "github.com/brimdata/super"
	"github.com/brimdata/super/api"
	"github.com/brimdata/super/lake"
	lakeapi "github.com/brimdata/super/lake/api"
	"github.com/brimdata/super/lake/data"
	"github.com/brimdata/super/lake/seekindex"
	"github.com/brimdata/super/lakeparse"
	"github.com/brimdata/super/order"
	"github.com/brimdata/super/pkg/field"
	"github.com/brimdata/super/pkg/storage"
	"github.com/brimdata/super/zbuf"
	"github.com/brimdata/super/zio/zngio"
	"github.com/brimdata/super/zson"
	"github.com/segmentio/ksuid"

	"verif/memstore"
)

var LakeURI = storage.MustParseURI("file:///lake")

var Msg = api.CommitMessage{Author: "verif", Body: "verif"}

// Lake is one handle (one "process") on a store.
type Lake struct {
	Store  *memstore.Store
	Engine *memstore.Engine
	Root   *lake.Root
	API    lakeapi.Interface
}

// Create initialises a new lake on store.
func Create(ctx context.Context, store *memstore.Store, mode memstore.Mode, hook memstore.Hook) (*Lake, error) {
	e := memstore.New(store, mode)
	e.Hook = hook
	root, err := lake.Create(ctx, e, nil, LakeURI)
	if err != nil {
		return nil, err
	}
	return &Lake{Store: store, Engine: e, Root: root, API: lakeapi.FromRoot(root)}, nil
}

// Open opens an existing lake with a fresh handle (cold caches).
func Open(ctx context.Context, store *memstore.Store, mode memstore.Mode, hook memstore.Hook) (*Lake, error) {
	return OpenClient(ctx, store, mode, hook, 0)
}

func OpenClient(ctx context.Context, store *memstore.Store, mode memstore.Mode, hook memstore.Hook, client int) (*Lake, error) {
	e := memstore.New(store, mode)
	e.Hook = hook
	e.Client = client
	root, err := lake.Open(ctx, e, nil, LakeURI)
	if err != nil {
		return nil, err
	}
	return &Lake{Store: store, Engine: e, Root: root, API: lakeapi.FromRoot(root)}, nil
}

// PoolSpec is a JSON-serialisable pool configuration.
type PoolSpec struct {
	Name   string   `json:"name"`
	Key    []string `json:"key"`  // path of the pool key; ["this"] for whole-value key
	Desc   bool     `json:"desc"` // descending order
	Thresh int64    `json:"thresh"`
	Stride int      `json:"stride"`
}

func (p PoolSpec) SortKeys() order.SortKeys {
	o := order.Asc
	if p.Desc {
		o = order.Desc
	}
	return order.SortKeys{order.NewSortKey(o, field.Path(p.Key))}
}

func (p PoolSpec) Order() order.Which {
	if p.Desc {
		return order.Desc
	}
	return order.Asc
}

func (l *Lake) CreatePool(ctx context.Context, p PoolSpec) (ksuid.KSUID, error) {
	return l.API.CreatePool(ctx, p.Name, p.SortKeys(), p.Stride, p.Thresh)
}

// Load loads vals into pool/branch in one commit.
func (l *Lake) Load(ctx context.Context, pool ksuid.KSUID, branch string, zctx *zed.Context, vals []zed.Value) (ksuid.KSUID, error) {
	return l.API.Load(ctx, zctx, pool, branch, zbuf.NewArray(vals), Msg)
}

// Query runs src with the given head and returns copies of all result values.
func (l *Lake) Query(ctx context.Context, head *lakeparse.Commitish, src string) ([]zed.Value, error) {
	q, err := l.API.Query(ctx, head, src)
	if err != nil {
		return nil, err
	}
	defer q.Pull(true)
	var out []zed.Value
	for {
		batch, err := q.Pull(false)
		if err != nil {
			return out, err
		}
		if batch == nil {
			return out, nil
		}
		for _, v := range batch.Values() {
			out = append(out, v.Copy())
		}
		batch.Unref()
	}
}

// Tip returns the commit id at the tip of the branch.
func (l *Lake) Tip(ctx context.Context, pool ksuid.KSUID, branch string) (ksuid.KSUID, error) {
	return l.API.CommitObject(ctx, pool, branch)
}

// Objects lists the data objects (and which have vectors) of a commit.
func (l *Lake) Objects(ctx context.Context, pool ksuid.KSUID, commit ksuid.KSUID) ([]*data.Object, map[ksuid.KSUID]bool, error) {
	p, err := l.Root.OpenPool(ctx, pool)
	if err != nil {
		return nil, nil, err
	}
	if commit == ksuid.Nil {
		return nil, map[ksuid.KSUID]bool{}, nil
	}
	snap, err := p.Snapshot(ctx, commit)
	if err != nil {
		return nil, nil, err
	}
	objs := snap.SelectAll()
	vec := map[ksuid.KSUID]bool{}
	for _, o := range objs {
		if snap.HasVector(o.ID) {
			vec[o.ID] = true
		}
	}
	return objs, vec, nil
}

// ReadObject reads every value stored in one data object file.
func (l *Lake) ReadObject(ctx context.Context, pool ksuid.KSUID, o *data.Object, zctx *zed.Context) ([]zed.Value, error) {
	p, err := l.Root.OpenPool(ctx, pool)
	if err != nil {
		return nil, err
	}
	r, err := l.Engine.Get(ctx, o.SequenceURI(p.DataPath))
	if err != nil {
		return nil, err
	}
	defer r.Close()
	zr := zngio.NewReader(zctx, r)
	defer zr.Close()
	var out []zed.Value
	for {
		v, err := zr.Read()
		if err != nil {
			return out, err
		}
		if v == nil {
			return out, nil
		}
		out = append(out, v.Copy())
	}
}

// SeekIndex reads the seek index entries of an object.
func (l *Lake) SeekIndex(ctx context.Context, pool ksuid.KSUID, o *data.Object) ([]seekindex.Entry, error) {
	p, err := l.Root.OpenPool(ctx, pool)
	if err != nil {
		return nil, err
	}
	r, err := l.Engine.Get(ctx, o.SeekIndexURI(p.DataPath))
	if err != nil {
		return nil, err
	}
	defer r.Close()
	zr := zngio.NewReader(zed.NewContext(), r)
	defer zr.Close()
	u := zson.NewZNGUnmarshaler()
	var out []seekindex.Entry
	for {
		v, err := zr.Read()
		if err != nil {
			return out, err
		}
		if v == nil {
			return out, nil
		}
		var e seekindex.Entry
		if err := u.Unmarshal(*v, &e); err != nil {
			return out, err
		}
		// values alias the reader's buffers
		e.Min, e.Max = e.Min.Copy(), e.Max.Copy()
		out = append(out, e)
	}
}

// Head builds a commitish.
func Head(pool, branch string) *lakeparse.Commitish {
	return &lakeparse.Commitish{Pool: pool, Branch: branch}
}

// ErrString renders an error for labels without ids.
func ErrString(err error) string {
	if err == nil {
		return ""
	}
	return fmt.Sprintf("%v", err)
}

var ErrSkip = errors.New("skip")

// Translate copies vals into zctx (types canonical there).  The repo's
// expression evaluators cache field positions by type id, which is only
// meaningful within one context, so values from different queries must be
// brought into one context before they are compared with repo comparators.
func Translate(zctx *zed.Context, vals []zed.Value) []zed.Value {
	out := make([]zed.Value, len(vals))
	for i, v := range vals {
		typ, err := zctx.TranslateType(v.Type())
		if err != nil {
			panic(err)
		}
		out[i] = zed.NewValue(typ, v.Bytes()).Copy()
	}
	return out
}
