package c10

import (
	"bytes"
	"context"
	"fmt"
	"strings"

	zed "github.com/brimdata/super"
	"github.com/brimdata/super/compiler"
	"github.com/brimdata/super/compiler/ast/dag"
	"github.com/brimdata/super/compiler/data"
	"github.com/brimdata/super/order"
	"github.com/brimdata/super/pkg/field"
	"github.com/brimdata/super/runtime"
	"github.com/brimdata/super/runtime/sam/expr"
	"github.com/brimdata/super/zbuf"
	"github.com/brimdata/super/zio"
	"github.com/brimdata/super/zio/zngio"

	"verif/gen"
)

// reload moves a sequence into a fresh context by a ZNG round trip, so that a
// case behaves the same whether it comes from the generator or from a replay.
func reload(s gen.Seq) gen.Seq {
	var buf bytes.Buffer
	w := zngio.NewWriterWithOpts(zio.NopCloser(&buf), zngio.WriterOpts{})
	for _, v := range s.Vals {
		if err := w.Write(v); err != nil {
			panic(fmt.Sprintf("harness: reload write: %v", err))
		}
	}
	if err := w.Close(); err != nil {
		panic(fmt.Sprintf("harness: reload close: %v", err))
	}
	out := gen.Seq{Zctx: zed.NewContext()}
	r := zngio.NewReader(out.Zctx, bytes.NewReader(buf.Bytes()))
	defer r.Close()
	for {
		v, err := r.Read()
		if err != nil {
			panic(fmt.Sprintf("harness: reload read: %v", err))
		}
		if v == nil {
			return out
		}
		out.Vals = append(out.Vals, v.Copy())
	}
}

// batchSource is an input whose batch boundaries are chosen by the case: it
// implements zbuf.ScannerAble so that the flowgraph pulls batches of exactly
// `size` values (the last one may be shorter).  Any batching is a legal
// upstream; the operators' behaviour between batches (sorted-input release in
// group-by) is what this exposes.
type batchSource struct {
	vals []zed.Value
	size int
	pos  int
}

func (b *batchSource) Read() (*zed.Value, error) {
	if b.pos >= len(b.vals) {
		return nil, nil
	}
	v := &b.vals[b.pos]
	b.pos++
	return v, nil
}

func (b *batchSource) NewScanner(ctx context.Context, filter zbuf.Filter) (zbuf.Scanner, error) {
	var f expr.Evaluator
	if filter != nil {
		var err error
		if f, err = filter.AsEvaluator(); err != nil {
			return nil, err
		}
	}
	return &batchScanner{src: b, filter: f, ectx: expr.NewContext()}, nil
}

type batchScanner struct {
	src    *batchSource
	filter expr.Evaluator
	ectx   expr.Context
	done   bool
}

func (s *batchScanner) Progress() zbuf.Progress { return zbuf.Progress{} }

func (s *batchScanner) Pull(done bool) (zbuf.Batch, error) {
	if done {
		s.done = true
	}
	for {
		if s.done || s.src.pos >= len(s.src.vals) {
			s.done = true
			return nil, nil
		}
		end := min(s.src.pos+max(s.src.size, 1), len(s.src.vals))
		var out []zed.Value
		for _, v := range s.src.vals[s.src.pos:end] {
			if s.filter != nil {
				r := s.filter.Eval(s.ectx, v)
				if !(r.Type() == zed.TypeBool && r.Bool()) {
					continue
				}
			}
			out = append(out, v.Copy())
		}
		s.src.pos = end
		if len(out) > 0 {
			return zbuf.NewArray(out), nil
		}
	}
}

type runOpts struct {
	batch   int            // values per input batch (0: 100)
	sortKey *order.SortKey // declared order of the input (nil: unknown)
	// edit is applied to the optimized DAG before it is built (used to turn a
	// summarize into its partials-out / partials-in half, the way
	// optimizer.liftIntoParPaths does).
	edit func(dag.Seq) error
}

// runProgram compiles src the way compiler.CompileWithSortKey does (NewJob,
// declared sort key on the default scan, Optimize, Build) and runs it over vals.
func runProgram(zctx *zed.Context, vals []zed.Value, src string, o runOpts) ([]zed.Value, error) {
	ast, _, err := compiler.Parse(src)
	if err != nil {
		return nil, fmt.Errorf("parse: %w", err)
	}
	rctx := runtime.NewContext(context.Background(), zctx)
	defer rctx.Cancel()
	job, err := compiler.NewJob(rctx, ast, data.NewSource(nil, nil), nil)
	if err != nil {
		return nil, fmt.Errorf("compile: %w", err)
	}
	scan, ok := job.DefaultScan()
	if !ok {
		return nil, fmt.Errorf("compile: program does not read the default input")
	}
	if o.sortKey != nil {
		scan.SortKeys = order.SortKeys{*o.sortKey}
	}
	if err := job.Optimize(); err != nil {
		return nil, fmt.Errorf("optimize: %w", err)
	}
	if o.edit != nil {
		if err := o.edit(job.Entry()); err != nil {
			return nil, err
		}
	}
	size := o.batch
	if size <= 0 {
		size = 100
	}
	if err := job.Build(&batchSource{vals: vals, size: size}); err != nil {
		return nil, fmt.Errorf("build: %w", err)
	}
	puller := job.Puller()
	var out []zed.Value
	for {
		batch, err := puller.Pull(false)
		if err != nil {
			return out, err
		}
		if batch == nil {
			return out, nil
		}
		for _, v := range batch.Values() {
			out = append(out, v.Copy())
		}
		batch.Unref()
	}
}

func sortKeyOn(name string, desc bool) *order.SortKey {
	which := order.Asc
	if desc {
		which = order.Desc
	}
	k := order.NewSortKey(which, field.Path{name})
	return &k
}

func findSummarize(seq dag.Seq) *dag.Summarize {
	for _, op := range seq {
		if s, ok := op.(*dag.Summarize); ok {
			return s
		}
	}
	return nil
}

// editPartialsOut / editPartialsIn perform the two halves of
// optimizer.liftIntoParPaths' decomposition of a summarize.
func editPartialsOut(seq dag.Seq) error {
	s := findSummarize(seq)
	if s == nil {
		return fmt.Errorf("harness: no summarize in the DAG")
	}
	if s.PartialsIn || s.PartialsOut {
		return fmt.Errorf("harness: summarize already has partials flags")
	}
	s.PartialsOut = true
	return nil
}

func editPartialsIn(seq dag.Seq) error {
	s := findSummarize(seq)
	if s == nil {
		return fmt.Errorf("harness: no summarize in the DAG")
	}
	if s.PartialsIn || s.PartialsOut {
		return fmt.Errorf("harness: summarize already has partials flags")
	}
	s.PartialsIn = true
	// The upstream aggregators computed the key expressions, so the ingress
	// aggregator references each key by its name.
	for k := range s.Keys {
		s.Keys[k].RHS = s.Keys[k].LHS
	}
	return nil
}

func isPanicErr(err error) bool {
	return err != nil && strings.HasPrefix(err.Error(), "panic:")
}

// panicFrame extracts the first frame of the code under test from the stack
// that op.Catcher embeds in its error, for a stable signature.
func panicFrame(err error) string {
	for _, l := range strings.Split(err.Error(), "\n") {
		l = strings.TrimSpace(l)
		if strings.HasPrefix(l, "github.com/brimdata/super") && !strings.Contains(l, "op.(*Catcher)") {
			if i := strings.LastIndex(l, "("); i > 0 {
				l = l[:i]
			}
			return strings.TrimPrefix(l, "github.com/brimdata/super")
		}
	}
	return "?"
}
