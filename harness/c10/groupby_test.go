package c10

import (
	"fmt"
	"math"
	"sort"
	"strconv"
	"strings"
	"testing"

	zed "github.com/brimdata/super"
	"github.com/brimdata/super/order"
	"github.com/brimdata/super/runtime/sam/expr"
	"github.com/brimdata/super/runtime/sam/op/groupby"
	"github.com/brimdata/super/zcode"
	"github.com/brimdata/super/zson"
	"pgregory.net/rapid"

	"verif/gen"
	"verif/oracle"
	"verif/vt"
)

func TestMain(m *testing.M) { vt.Main(m) }

// ---------------------------------------------------------------- case

type KeySpec struct {
	Name string `json:"name"`
	Expr string `json:"expr"` // equal to Name for a plain field key
}

type AggSpec struct {
	Name  string `json:"name"`
	Func  string `json:"func"`
	Arg   string `json:"arg"` // "" for count()
	Where string `json:"where"`
}

type GBCase struct {
	Rows       gen.Seq   `json:"rows"`
	Keys       []KeySpec `json:"keys"`
	Aggs       []AggSpec `json:"aggs"`
	Batch      int       `json:"batch"`
	LimitVia   string    `json:"limit_via"`   // "global" (groupby.DefaultLimit) or "flag" (`with -limit N`)
	Perm       []int     `json:"perm"`        // a permutation of the row indices
	SortOn     int       `json:"sort_on"`     // index of the plain-field (possibly renamed, kk:=k) key whose field the sorted variants sort and declare on; -1: none
	SortLimit  int       `json:"sort_limit"`  // table limit of the second sorted run
	Shards     []int     `json:"shards"`      // row index -> shard
	NShards    int       `json:"nshards"`     // 1..4
	ShardLimit int       `json:"shard_limit"` // table limit inside the partials stages
}

var tableLimits = []int{1, 2, 5, 1000000}

const countName = "n_" // hidden count() appended to every program

func (c GBCase) program(limit int) string {
	var aggs []string
	for _, a := range c.Aggs {
		s := fmt.Sprintf("%s:=%s(%s)", a.Name, a.Func, a.Arg)
		if a.Where != "" {
			s += " where " + a.Where
		}
		aggs = append(aggs, s)
	}
	aggs = append(aggs, countName+":=count()")
	p := "summarize " + strings.Join(aggs, ", ")
	if len(c.Keys) > 0 {
		var keys []string
		for _, k := range c.Keys {
			if k.Expr == k.Name {
				keys = append(keys, k.Name)
			} else {
				keys = append(keys, k.Name+":="+k.Expr)
			}
		}
		p += " by " + strings.Join(keys, ", ")
	}
	if c.LimitVia == "flag" && limit > 0 {
		p += fmt.Sprintf(" with -limit %d", limit)
	}
	return p
}

// ---------------------------------------------------------------- generator

var (
	intKeyPool    = []string{"0", "1", "2", "3", "-1", "10"}
	stringKeyPool = []string{`"a"`, `"b"`, `""`, `"1"`, `"A"`}
	mixedKeyPool  = []string{"1", "1(uint64)", "1.", "1(int32)", "1(uint8)", "1ns", "2", "2.", "2(uint64)", "0", "0.", "-1", "-1.", "2.5", "10",
		`"a"`, `"b"`, `"1"`, "true", "false", "null(int64)", "null(string)", "null(float64)", "null", "10.0.0.1", "80(port=uint16)", "80(uint16)",
		"MISSING", "MISSING", "[1]", "{x:1}"}
	sPool     = []string{"a", "b", "c", "", "x y"}
	wherePool = []string{"i>0", "b", `s=="a"`, "i%2==0", "f<0.", "i>=-1000"}
)

func fmtFloat(x float64) string {
	s := strconv.FormatFloat(x, 'f', -1, 64)
	if !strings.ContainsAny(s, ".") {
		s += "."
	}
	return s
}

func drawValueLit(t *rapid.T, col string, allowMissing bool) string {
	if allowMissing && rapid.IntRange(0, 19).Draw(t, "missing?") == 0 {
		return "MISSING"
	}
	switch col {
	case "i":
		if rapid.IntRange(0, 9).Draw(t, "inull") == 0 {
			return "null(int64)"
		}
		if rapid.Bool().Draw(t, "ismall") {
			return strconv.Itoa(rapid.IntRange(-3, 3).Draw(t, "i"))
		}
		return strconv.Itoa(rapid.IntRange(-1000, 1000).Draw(t, "i"))
	case "f":
		switch rapid.IntRange(0, 9).Draw(t, "fkind") {
		case 0:
			return "null(float64)"
		case 1, 2:
			return fmtFloat(float64(rapid.IntRange(-50, 50).Draw(t, "f10")) / 10)
		default:
			return fmtFloat(float64(rapid.IntRange(-64000, 64000).Draw(t, "f64")) / 64)
		}
	case "b":
		return rapid.SampledFrom([]string{"true", "false", "true", "false", "null(bool)"}).Draw(t, "b")
	case "s":
		return strconv.Quote(rapid.SampledFrom(sPool).Draw(t, "s"))
	default: // "m": mixed
		switch rapid.IntRange(0, 7).Draw(t, "mkind") {
		case 0, 1:
			return strconv.Itoa(rapid.IntRange(-5, 5).Draw(t, "mi"))
		case 2, 3:
			return fmtFloat(float64(rapid.IntRange(-40, 40).Draw(t, "mf")) / 8)
		case 4:
			return fmt.Sprintf("%d(uint64)", rapid.IntRange(0, 5).Draw(t, "mu"))
		case 5:
			return strconv.Quote(rapid.SampledFrom(sPool).Draw(t, "ms"))
		case 6:
			return fmt.Sprintf("%d(int32)", rapid.IntRange(-5, 5).Draw(t, "mi32"))
		default:
			return rapid.SampledFrom([]string{"null(int64)", "null", "true", "null(float64)"}).Draw(t, "mnull")
		}
	}
}

var keyCols = []string{"k", "j", "h"}

func genGBCase(t *rapid.T) GBCase {
	maxRows := 40
	if vt.Thorough() {
		maxRows = 250
	}
	var c GBCase
	nk := rapid.SampledFrom([]int{0, 1, 1, 1, 2, 2, 3}).Draw(t, "nkeys")
	// key columns present in the rows (always all three, so computed keys and args may use them)
	palettes := make([][]string, len(keyCols))
	for j := range keyCols {
		var pool []string
		switch rapid.SampledFrom([]string{"int", "string", "mixed", "mixed"}).Draw(t, "keymode") {
		case "int":
			pool = intKeyPool
		case "string":
			pool = stringKeyPool
		default:
			pool = mixedKeyPool
		}
		n := rapid.SampledFrom([]int{1, 2, 3, 4, 5, 6, 8}).Draw(t, "npalette")
		for i := 0; i < n; i++ {
			palettes[j] = append(palettes[j], rapid.SampledFrom(pool).Draw(t, "keylit"))
		}
	}
	allowMissing := rapid.IntRange(0, 3).Draw(t, "missingvals?") == 0
	n := rapid.IntRange(0, maxRows).Draw(t, "nrows")
	var rows []string
	for r := 0; r < n; r++ {
		var fields []string
		for j, name := range keyCols {
			lit := rapid.SampledFrom(palettes[j]).Draw(t, "key")
			if lit != "MISSING" {
				fields = append(fields, name+":"+lit)
			}
		}
		for _, col := range []string{"i", "f", "b", "s", "m"} {
			lit := drawValueLit(t, col, allowMissing)
			if lit != "MISSING" {
				fields = append(fields, col+":"+lit)
			}
		}
		rows = append(rows, "{"+strings.Join(fields, ",")+"}")
	}
	c.Rows = gen.SeqFromZSON(strings.Join(rows, "\n"))
	// keys
	c.SortOn = -1
	var plain []int
	for j := 0; j < nk; j++ {
		col := keyCols[j]
		switch rapid.IntRange(0, 9).Draw(t, "keyform") {
		case 0:
			c.Keys = append(c.Keys, KeySpec{Name: col + col, Expr: col})
			plain = append(plain, j) // a renamed plain field: the sorted variants sort and declare on the field itself
		case 1, 2:
			e := rapid.SampledFrom([]string{"i%3", "len(s)", "typeof(" + col + ")", `s+"_"`, col + "+1", "b", "m"}).Draw(t, "computed")
			c.Keys = append(c.Keys, KeySpec{Name: "c" + strconv.Itoa(j), Expr: e})
		default:
			c.Keys = append(c.Keys, KeySpec{Name: col, Expr: col})
			plain = append(plain, j)
		}
	}
	if len(plain) > 0 {
		c.SortOn = rapid.SampledFrom(plain).Draw(t, "sorton")
	}
	// aggregates
	na := rapid.IntRange(1, 4).Draw(t, "naggs")
	for a := 0; a < na; a++ {
		f := rapid.SampledFrom([]string{"count", "sum", "sum", "min", "max", "avg", "avg", "and", "or", "collect", "collect", "union", "dcount", "any", "fuse"}).Draw(t, "func")
		spec := AggSpec{Name: "a" + strconv.Itoa(a), Func: f}
		switch f {
		case "count":
		case "sum", "min", "max", "avg":
			spec.Arg = rapid.SampledFrom([]string{"i", "i", "f", "f", "m"}).Draw(t, "arg")
		case "and", "or":
			spec.Arg = rapid.SampledFrom([]string{"b", "b", "b", "m"}).Draw(t, "arg")
		case "fuse":
			spec.Arg = rapid.SampledFrom([]string{"this", "m", "k"}).Draw(t, "arg")
		default:
			spec.Arg = rapid.SampledFrom([]string{"i", "f", "b", "s", "m", "k"}).Draw(t, "arg")
		}
		if rapid.IntRange(0, 9).Draw(t, "where?") < 4 {
			spec.Where = rapid.SampledFrom(wherePool).Draw(t, "where")
		}
		c.Aggs = append(c.Aggs, spec)
	}
	c.Batch = rapid.SampledFrom([]int{1, 2, 3, 7, 100}).Draw(t, "batch")
	c.LimitVia = rapid.SampledFrom([]string{"global", "global", "flag"}).Draw(t, "limitvia")
	idx := make([]int, n)
	for i := range idx {
		idx[i] = i
	}
	c.Perm = rapid.Permutation(idx).Draw(t, "perm")
	c.SortLimit = rapid.SampledFrom([]int{1, 2, 5}).Draw(t, "sortlimit")
	c.NShards = rapid.IntRange(1, 4).Draw(t, "nshards")
	c.Shards = make([]int, n)
	for i := range c.Shards {
		c.Shards[i] = rapid.IntRange(0, c.NShards-1).Draw(t, "shard")
	}
	c.ShardLimit = rapid.SampledFrom(tableLimits).Draw(t, "shardlimit")
	return c
}

// ---------------------------------------------------------------- model

type gbModel struct {
	c       GBCase
	zctx    *zed.Context
	rows    []zed.Value
	keyVals [][]zed.Value // [key][row]
	argVals [][]zed.Value // [agg][row]; nil slice for count()
	whereOK [][]bool      // [agg][row]
	fine    []string      // [row] fine key
	coarse  []string      // [row] coarse key
	// derived
	fineOfCoarse map[string][]string // coarse class -> distinct fine keys (first-appearance order)
	rowsOfFine   map[string][]int    // fine key -> row indices (input order)
	nFine        int
}

// valKey is the identity of a value: type bytes + null marker + bytes.
func valKey(v zed.Value) string { return oracle.Key(v) }

// coarseKey is the identity of a key value under the sort comparator that the
// spill merge uses (expr.compareValues == 0): numbers of any numeric type by
// numeric value, nulls of any type (and missing) alike, otherwise type id and bytes.
// The generator keeps numeric key values small, so float64 is exact here.
func coarseKey(v zed.Value) string {
	if v.IsNull() || v.IsMissing() {
		return "NULL"
	}
	id := v.Type().ID()
	if zed.IsNumber(id) {
		var f float64
		switch {
		case zed.IsFloat(id):
			f = v.Float()
		case zed.IsSigned(id):
			f = float64(v.Int())
		default:
			f = float64(v.Uint())
		}
		if f == 0 {
			f = 0 // -0 == +0
		}
		return "N" + strconv.FormatFloat(f, 'g', -1, 64)
	}
	if id < zed.IDTypeComplex {
		return fmt.Sprintf("P%d:%x", id, v.Bytes())
	}
	return "C" + valKey(v)
}

// evalPerRow runs `yield <expr>` and returns one value per input row, or nil if
// the runtime dropped some value (quiet errors).
func evalPerRow(zctx *zed.Context, rows []zed.Value, e string) ([]zed.Value, error) {
	out, err := runProgram(zctx, rows, "yield "+e, runOpts{})
	if err != nil {
		return nil, err
	}
	if len(out) != len(rows) {
		return nil, nil
	}
	if out == nil {
		out = []zed.Value{}
	}
	return out, nil
}

func buildModel(c GBCase, zctx *zed.Context, rows []zed.Value) (*gbModel, string, error) {
	m := &gbModel{c: c, zctx: zctx, rows: rows}
	for _, k := range c.Keys {
		vals, err := evalPerRow(zctx, rows, k.Expr)
		if err != nil {
			return nil, "", err
		}
		if vals == nil {
			return nil, "key-expression-dropped-rows:" + k.Expr, nil
		}
		m.keyVals = append(m.keyVals, vals)
	}
	for _, a := range c.Aggs {
		var vals []zed.Value
		if a.Arg != "" {
			var err error
			vals, err = evalPerRow(zctx, rows, a.Arg)
			if err != nil {
				return nil, "", err
			}
			if vals == nil {
				return nil, "arg-expression-dropped-rows:" + a.Arg, nil
			}
		}
		m.argVals = append(m.argVals, vals)
		ok := make([]bool, len(rows))
		if a.Where == "" {
			for i := range ok {
				ok[i] = true
			}
		} else {
			w, err := evalPerRow(zctx, rows, a.Where)
			if err != nil {
				return nil, "", err
			}
			if w == nil {
				return nil, "where-expression-dropped-rows:" + a.Where, nil
			}
			for i, v := range w {
				ok[i] = zed.TypeUnder(v.Type()) == zed.TypeBool && !v.IsNull() && v.Bool()
			}
		}
		m.whereOK = append(m.whereOK, ok)
	}
	m.fineOfCoarse = map[string][]string{}
	m.rowsOfFine = map[string][]int{}
	for i := range rows {
		var fk, ck []string
		for j := range c.Keys {
			fk = append(fk, valKey(m.keyVals[j][i]))
			ck = append(ck, coarseKey(m.keyVals[j][i]))
		}
		f, co := strings.Join(fk, "\x00|"), strings.Join(ck, "\x00|")
		m.fine = append(m.fine, f)
		m.coarse = append(m.coarse, co)
		if _, ok := m.rowsOfFine[f]; !ok {
			m.fineOfCoarse[co] = append(m.fineOfCoarse[co], f)
		}
		m.rowsOfFine[f] = append(m.rowsOfFine[f], i)
	}
	m.nFine = len(m.rowsOfFine)
	return m, "", nil
}

// ---------------------------------------------------------------- output rows

type outRow struct {
	val    zed.Value
	fine   string
	coarse string
	aggs   []zed.Value // len(c.Aggs)
	count  uint64
}

func fieldsOf(v zed.Value) ([]zed.Field, []zed.Value, bool) {
	rt, ok := zed.TypeUnder(v.Type()).(*zed.TypeRecord)
	if !ok || v.IsNull() {
		return nil, nil, false
	}
	var vals []zed.Value
	it := v.Bytes().Iter()
	for _, f := range rt.Fields {
		vals = append(vals, zed.NewValue(f.Type, it.Next()))
	}
	return rt.Fields, vals, true
}

func (m *gbModel) parseOut(v zed.Value) (*outRow, string) {
	fields, vals, ok := fieldsOf(v)
	nk, na := len(m.c.Keys), len(m.c.Aggs)
	if !ok || len(fields) != nk+na+1 {
		return nil, fmt.Sprintf("output row %s is not a record of %d keys + %d aggregates", oracle.Show(v), nk, na+1)
	}
	r := &outRow{val: v}
	var fk, ck []string
	for j := 0; j < nk; j++ {
		if fields[j].Name != m.c.Keys[j].Name {
			return nil, fmt.Sprintf("output row %s: field %d is %q, want key %q", oracle.Show(v), j, fields[j].Name, m.c.Keys[j].Name)
		}
		fk = append(fk, valKey(vals[j]))
		ck = append(ck, coarseKey(vals[j]))
	}
	r.fine, r.coarse = strings.Join(fk, "\x00|"), strings.Join(ck, "\x00|")
	for a := 0; a < na; a++ {
		if fields[nk+a].Name != m.c.Aggs[a].Name {
			return nil, fmt.Sprintf("output row %s: field %d is %q, want aggregate %q", oracle.Show(v), nk+a, fields[nk+a].Name, m.c.Aggs[a].Name)
		}
		r.aggs = append(r.aggs, vals[nk+a])
	}
	cv := vals[nk+na]
	if fields[nk+na].Name != countName || cv.Type() != zed.TypeUint64 || cv.IsNull() {
		return nil, fmt.Sprintf("output row %s: last field is not the count", oracle.Show(v))
	}
	r.count = cv.Uint()
	return r, ""
}

// ---------------------------------------------------------------- runs

type runInfo struct {
	name         string
	order        []int // row indices in the order this run consumed them (nil: not a single ordered stream)
	spillLimit   int   // smallest table limit in effect anywhere in this run
	orderDefined bool  // collect order is defined: single stream, no spill, no partials
	permuted     bool
	multiStage   bool // partials-out stages feeding a partials-in stage
}

const sigSpillMerge = "C10/groupby/spill-merges-keys-equal-under-comparator"
const sigFuseNullPartial = "C10/fuse/null-partial-crash"
const sigFuseDupUnion = "C10/fuse/duplicate-union-member-after-partials"
const sigSortedSpillErrorKey = "C10/groupby/sorted-spill-error-key"
const sigForeignCtx = "C10/groupby/spill-foreign-context-union-tag"
const sigSortedNonFirst = "C10/groupby/sorted-on-non-first-key"

type classResult struct {
	rows    []*outRow
	tainted bool
}

// checkRun applies layer 1 to one run's output and, when base is non-nil,
// layer 2 against the baseline's rows.  It returns the per-fine-key rows of this
// run (untainted classes only) for use as a baseline.
func (m *gbModel) checkRun(run runInfo, out []zed.Value, base map[string]*outRow, o *vt.Outcome) (map[string]*outRow, *vt.Failure) {
	if len(m.c.Keys) == 0 && len(m.rows) == 0 {
		// no input, no keys: summarize emits nothing or one row of empty aggregates; nothing to decide
		return map[string]*outRow{}, nil
	}
	byCoarse := map[string][]*outRow{}
	var coarseOrder []string
	for _, v := range out {
		r, bad := m.parseOut(v)
		if r == nil {
			return nil, vt.Failf("C10/groupby/output-shape", "%s: %s", run.name, bad)
		}
		if _, ok := m.fineOfCoarse[r.coarse]; !ok {
			return nil, vt.Failf("C10/groupby/unknown-key", "%s: output row %s has a key that no input row has", run.name, oracle.Show(v))
		}
		if _, ok := byCoarse[r.coarse]; !ok {
			coarseOrder = append(coarseOrder, r.coarse)
		}
		byCoarse[r.coarse] = append(byCoarse[r.coarse], r)
	}
	_ = coarseOrder
	result := map[string]*outRow{}
	// Classes of keys that differ only in type, in a multi-stage run whose stages may spill: each stage can
	// combine such keys under either representative (known finding C10-spill-merge-type), so the per-key counts
	// can come out right by coincidence (rows moved A->B in one stage and B->A in another) while the other
	// aggregates of those rows moved with them.  See the aggregate loop below.
	classRows := map[string][]*outRow{}
	classFines := map[string][]string{}
	spillPossible := run.spillLimit < m.nFine
	classes := make([]string, 0, len(m.fineOfCoarse))
	for co := range m.fineOfCoarse {
		classes = append(classes, co)
	}
	sort.Strings(classes)
	for _, co := range classes {
		fines := m.fineOfCoarse[co]
		rows := byCoarse[co]
		// strict expectation: one row per fine key with the model's count
		strict := len(rows) == len(fines)
		seen := map[string]int{}
		for _, r := range rows {
			seen[r.fine]++
			if _, ok := m.rowsOfFine[r.fine]; !ok || seen[r.fine] > 1 || int(r.count) != len(m.rowsOfFine[r.fine]) {
				strict = false
			}
		}
		if strict {
			for _, r := range rows {
				result[r.fine] = r
				if spillPossible && run.multiStage && len(fines) > 1 {
					classRows[r.fine] = rows
					classFines[r.fine] = fines
				}
			}
			continue
		}
		// Known finding: after a spill, rows whose keys are equal under the sort comparator but differ in
		// type are combined into one row.  Pattern: only this class's keys, each at most once, counts add up.
		total := 0
		for _, f := range fines {
			total += len(m.rowsOfFine[f])
		}
		sum := 0
		pattern := spillPossible && len(fines) > 1 && len(rows) >= 1 && len(rows) <= len(fines) // (== : counts moved between the keys by a merge inside one partials stage)
		for _, r := range rows {
			sum += int(r.count)
			if _, ok := m.rowsOfFine[r.fine]; !ok || seen[r.fine] > 1 {
				pattern = false
			}
		}
		if pattern && sum == total {
			if !vt.IsKnown(sigSpillMerge) {
				return nil, vt.Failf(sigSpillMerge, "%s (table limit %d, %d distinct keys): keys that differ only in type were combined: %d distinct (type,value) keys %s came out as %d row(s) %s",
					run.name, run.spillLimit, m.nFine, len(fines), m.showKeys(fines), len(rows), showRows(rows))
			}
			o.Known = appendOnce(o.Known, sigSpillMerge)
			continue
		}
		// anything else is a violation; name the symptom
		sig := "C10/groupby/count"
		switch {
		case len(rows) == 0:
			sig = "C10/groupby/key-missing"
		case maxCount(seen) > 1:
			sig = "C10/groupby/key-emitted-twice"
		case len(rows) < len(fines) && !spillPossible:
			sig = "C10/groupby/keys-merged-without-spill"
		case len(rows) != len(fines):
			sig = "C10/groupby/row-count"
		}
		return nil, vt.Failf(sig, "%s (table limit %d, %d distinct keys): for the key class %s the model has %d key(s) with counts %v (total %d) but the output has %d row(s): %s",
			run.name, run.spillLimit, m.nFine, m.showKeys(fines), len(fines), m.counts(fines), total, len(rows), showRows(rows))
	}
	// aggregate values: layer 1 predictions and layer 2 against the baseline
	for fine, r := range result {
		f := m.checkRowAggs(run, fine, r, base, o)
		if f == nil {
			continue
		}
		if fines, ok := classFines[fine]; ok && m.classConserved(fines, classRows[fine]) {
			// count-type aggregates add up over the class: values moved between keys that differ only in type
			if !vt.IsKnown(sigSpillMerge) {
				return nil, vt.Failf(sigSpillMerge, "%s (table limit %d, %d distinct keys): aggregates moved between keys that differ only in type %s although every key kept its row count: %s; rows of the class: %s",
					run.name, run.spillLimit, m.nFine, m.showKeys(fines), f.Msg, showRows(classRows[fine]))
			}
			o.Known = appendOnce(o.Known, sigSpillMerge)
			continue
		}
		return nil, f
	}
	return result, nil
}

// classConserved reports whether every count() aggregate, summed over the
// output rows of a class of keys, equals the model's sum over the class.
func (m *gbModel) classConserved(fines []string, rows []*outRow) bool {
	for a, spec := range m.c.Aggs {
		if spec.Func != "count" {
			continue
		}
		var got, want uint64
		for _, r := range rows {
			v := r.aggs[a]
			if v.Type() != zed.TypeUint64 || v.IsNull() {
				return false
			}
			got += v.Uint()
		}
		for _, f := range fines {
			want += uint64(len(m.consumed(a, m.rowsOfFine[f])))
		}
		if got != want {
			return false
		}
	}
	return true
}

// checkRowAggs applies layer 1 (and layer 2 when base is given) to the aggregates of one output row.
func (m *gbModel) checkRowAggs(run runInfo, fine string, r *outRow, base map[string]*outRow, o *vt.Outcome) *vt.Failure {
	idx := m.rowsOfFine[fine]
	if run.order != nil {
		idx = m.inRunOrder(idx, run.order)
	}
	for a := range m.c.Aggs {
		f, skip2 := m.checkAgg(run, a, idx, r, o)
		if f != nil {
			return f
		}
		if base != nil && !skip2 {
			if b := base[fine]; b != nil {
				d := m.sameAgg(a, idx, b.aggs[a], r.aggs[a])
				if d == dupUnion && vt.IsKnown(sigFuseDupUnion) {
					o.Known = appendOnce(o.Known, sigFuseDupUnion)
					d = ""
				}
				if d != "" {
					spec := m.c.Aggs[a]
					sig := fmt.Sprintf("C10/groupby/%s/differs-from-baseline/%s", spec.Func, runKind(run.name))
					if d == dupUnion {
						sig = sigFuseDupUnion
					}
					return vt.Failf(sig, "%s: %s(%s)%s for key %s: baseline (unsorted, direct, no spill) gave %s, this run gave %s: %s",
						run.name, spec.Func, spec.Arg, whereText(spec), m.showKeys([]string{fine}), oracle.Show(b.aggs[a]), oracle.Show(r.aggs[a]), d)
				}
			}
		}
	}
	return nil
}

func runKind(name string) string {
	if i := strings.IndexAny(name, " ("); i > 0 {
		return name[:i]
	}
	return name
}

func whereText(a AggSpec) string {
	if a.Where == "" {
		return ""
	}
	return " where " + a.Where
}

func appendOnce(l []string, s string) []string {
	for _, x := range l {
		if x == s {
			return l
		}
	}
	return append(l, s)
}

func maxCount(m map[string]int) int {
	n := 0
	for _, c := range m {
		n = max(n, c)
	}
	return n
}

func (m *gbModel) inRunOrder(idx []int, order []int) []int {
	pos := make(map[int]int, len(order))
	for p, i := range order {
		pos[i] = p
	}
	out := append([]int(nil), idx...)
	sort.Slice(out, func(a, b int) bool { return pos[out[a]] < pos[out[b]] })
	return out
}

func (m *gbModel) showKeys(fines []string) string {
	var parts []string
	for _, f := range fines {
		i := m.rowsOfFine[f][0]
		var ks []string
		for j := range m.c.Keys {
			ks = append(ks, m.c.Keys[j].Name+"="+oracle.Show(m.keyVals[j][i]))
		}
		parts = append(parts, "("+strings.Join(ks, ",")+")")
	}
	return "[" + strings.Join(parts, " ") + "]"
}

func (m *gbModel) counts(fines []string) []int {
	var out []int
	for _, f := range fines {
		out = append(out, len(m.rowsOfFine[f]))
	}
	return out
}

func showRows(rows []*outRow) string {
	var parts []string
	for _, r := range rows {
		parts = append(parts, oracle.Show(r.val))
	}
	return strings.Join(parts, " ")
}

// consumed returns the values the aggregate a consumes from rows idx (where
// clause true, argument not missing), in idx order.
func (m *gbModel) consumed(a int, idx []int) []zed.Value {
	var out []zed.Value
	for _, i := range idx {
		if !m.whereOK[a][i] {
			continue
		}
		if m.argVals[a] == nil {
			out = append(out, zed.True)
			continue
		}
		v := m.argVals[a][i]
		if v.IsMissing() {
			continue
		}
		out = append(out, v)
	}
	return out
}

func allOfType(vals []zed.Value, typ zed.Type) bool {
	for _, v := range vals {
		if v.Type() != typ {
			return false
		}
	}
	return true
}

func nonNull(vals []zed.Value) []zed.Value {
	var out []zed.Value
	for _, v := range vals {
		if !v.IsNull() {
			out = append(out, v)
		}
	}
	return out
}

// absScale is the sum of |x| over the numeric values: float comparisons use
// tolerance 1e-9 relative to it (addition order differs between paths).
func absScale(vals []zed.Value) float64 {
	s := 0.0
	for _, v := range vals {
		if v.IsNull() {
			continue
		}
		id := v.Type().ID()
		switch {
		case zed.IsFloat(id):
			s += math.Abs(v.Float())
		case zed.IsSigned(id) && id <= zed.IDInt64:
			s += math.Abs(float64(v.Int()))
		case zed.IsUnsigned(id):
			s += float64(v.Uint())
		}
	}
	return s
}

func closeEnough(got, want, scale float64) bool {
	if got == want {
		return true
	}
	return math.Abs(got-want) <= 1e-9*math.Max(scale, math.SmallestNonzeroFloat64)
}

// underKey is valKey with a type name on the value itself removed (whether
// collect/union keep the name of a named primitive is not part of the claim).
func underKey(v zed.Value) string {
	return valKey(zed.NewValue(zed.TypeUnder(v.Type()), v.Bytes()))
}

// elemKeys returns the identities of the elements of an array or set value,
// with union tags removed.
func elemKeys(v zed.Value) ([]string, bool) { return elemKeysBy(v, underKey) }

// elemKeysBy is elemKeys with the identity function given (underKey ignores a
// type name on the element, valKey keeps it).
func elemKeysBy(v zed.Value, key func(zed.Value) string) ([]string, bool) {
	if v.IsNull() {
		return nil, true
	}
	inner := zed.InnerType(zed.TypeUnder(v.Type()))
	if inner == nil {
		return nil, false
	}
	var out []string
	for it := v.Bytes().Iter(); !it.Done(); {
		typ, b := inner, it.Next()
		if u, ok := zed.TypeUnder(typ).(*zed.TypeUnion); ok && b != nil {
			it := b.Iter()
			tag := int(zed.DecodeInt(it.Next()))
			if tag < 0 || tag >= len(u.Types) {
				return nil, false // malformed: reported by the caller
			}
			typ, b = u.Untag(b)
		}
		out = append(out, key(zed.NewValue(typ, b)))
	}
	return out, true
}

func sameStrings(a, b []string, asSet, ordered bool) bool {
	if asSet {
		a, b = uniq(a), uniq(b)
	}
	if len(a) != len(b) {
		return false
	}
	if !ordered {
		a, b = append([]string(nil), a...), append([]string(nil), b...)
		sort.Strings(a)
		sort.Strings(b)
	}
	for i := range a {
		if a[i] != b[i] {
			return false
		}
	}
	return true
}

func uniq(a []string) []string {
	seen := map[string]bool{}
	var out []string
	for _, s := range a {
		if !seen[s] {
			seen[s] = true
			out = append(out, s)
		}
	}
	return out
}

// checkAgg is layer 1 for one aggregate of one output row: the value is
// predicted only where the semantics are unambiguous.
func (m *gbModel) checkAgg(run runInfo, a int, idx []int, r *outRow, o *vt.Outcome) (fail_ *vt.Failure, skipLayer2 bool) {
	spec := m.c.Aggs[a]
	got := r.aggs[a]
	vals := m.consumed(a, idx)
	fail := func(want string) (*vt.Failure, bool) {
		return vt.Failf("C10/groupby/"+spec.Func+"/wrong-value", "%s: %s(%s)%s for key %s over %d consumed value(s) %s: want %s, got %s",
			run.name, spec.Func, spec.Arg, whereText(spec), m.showKeys([]string{r.fine}), len(vals), showVals(vals), want, oracle.Show(got)), false
	}
	switch spec.Func {
	case "count":
		if got.Type() != zed.TypeUint64 || got.IsNull() || got.Uint() != uint64(len(vals)) {
			return fail(fmt.Sprintf("%d(uint64)", len(vals)))
		}
	case "sum", "min", "max", "avg":
		nn := nonNull(vals)
		switch {
		case len(vals) > 0 && allOfType(vals, zed.TypeInt64):
			if len(nn) == 0 {
				if !got.IsNull() {
					return fail("null")
				}
				return nil, false
			}
			var s, lo, hi int64 = 0, math.MaxInt64, math.MinInt64
			fs := 0.0
			for _, v := range nn {
				x := v.Int()
				s += x
				fs += float64(x)
				lo, hi = min(lo, x), max(hi, x)
			}
			want := map[string]int64{"sum": s, "min": lo, "max": hi}
			if spec.Func == "avg" {
				w := fs / float64(len(nn))
				if got.Type() != zed.TypeFloat64 || got.IsNull() || !closeEnough(got.Float(), w, absScale(nn)/float64(len(nn))) {
					return fail(fmtFloat(w))
				}
				return nil, false
			}
			if got.Type() != zed.TypeInt64 || got.IsNull() || got.Int() != want[spec.Func] {
				return fail(strconv.FormatInt(want[spec.Func], 10))
			}
		case len(vals) > 0 && allOfType(vals, zed.TypeFloat64):
			if len(nn) == 0 {
				if !got.IsNull() {
					return fail("null")
				}
				return nil, false
			}
			s, lo, hi := 0.0, math.Inf(1), math.Inf(-1)
			for _, v := range nn {
				x := v.Float()
				s += x
				lo, hi = math.Min(lo, x), math.Max(hi, x)
			}
			if got.Type() != zed.TypeFloat64 || got.IsNull() {
				return fail("a float64")
			}
			scale := absScale(nn)
			switch spec.Func {
			case "sum":
				if !closeEnough(got.Float(), s, scale) {
					return fail(fmtFloat(s) + " (relative tolerance 1e-9)")
				}
			case "avg":
				if !closeEnough(got.Float(), s/float64(len(nn)), scale/float64(len(nn))) {
					return fail(fmtFloat(s/float64(len(nn))) + " (relative tolerance 1e-9)")
				}
			case "min":
				if got.Float() != lo {
					return fail(fmtFloat(lo))
				}
			case "max":
				if got.Float() != hi {
					return fail(fmtFloat(hi))
				}
			}
		case len(vals) == 0:
			if !got.IsNull() {
				return fail("null")
			}
		}
	case "and", "or":
		if len(vals) == 0 || allOfType(vals, zed.TypeBool) {
			nn := nonNull(vals)
			if len(nn) == 0 {
				if !got.IsNull() {
					return fail("null")
				}
				return nil, false
			}
			w := spec.Func == "and"
			for _, v := range nn {
				if spec.Func == "and" {
					w = w && v.Bool()
				} else {
					w = w || v.Bool()
				}
			}
			if got.Type() != zed.TypeBool || got.IsNull() || got.Bool() != w {
				return fail(strconv.FormatBool(w))
			}
		}
	case "collect", "union":
		nn := nonNull(vals)
		var want []string
		for _, v := range nn {
			want = append(want, underKey(v))
		}
		if len(nn) == 0 {
			if !got.IsNull() {
				return fail("null")
			}
			return nil, false
		}
		elems, ok := elemKeys(got)
		if !ok && !got.IsNull() && zed.InnerType(zed.TypeUnder(got.Type())) != nil && run.spillLimit < m.nFine && mixedWithComplex(nn) {
			// Known finding C10-spill-foreign-context: spilled partials come back typed in the spill's
			// private zed.Context, and collect/union tag union members by type pointer (TypeUnion.TagOf == -1).
			if vt.IsKnown(sigForeignCtx) {
				o.Known = appendOnce(o.Known, sigForeignCtx)
				return nil, true
			}
			return vt.Failf(sigForeignCtx, "%s: %s(%s)%s for key %s over %s returned a malformed value (invalid union tag): type %s bytes %x",
				run.name, spec.Func, spec.Arg, whereText(spec), m.showKeys([]string{r.fine}), showVals(nn), zson.FormatType(got.Type()), got.Bytes()), false
		}
		if !ok || got.IsNull() {
			return fail("a container of " + showVals(nn))
		}
		if spec.Func == "union" {
			// The elements must be the consumed values as a set.  Whether union() keeps the name of a named
			// primitive is not part of the claim, so membership is compared with names removed; "no element
			// twice" and "no more elements than distinct consumed values" are decided on the full identity
			// (80(port=uint16) and 80(uint16) are two values).
			raw, _ := elemKeysBy(got, valKey)
			var rawWant []string
			for _, v := range nn {
				rawWant = append(rawWant, valKey(v))
			}
			if _, isSet := zed.TypeUnder(got.Type()).(*zed.TypeSet); !isSet || !sameStrings(want, elems, true, false) ||
				len(uniq(raw)) != len(raw) || len(raw) > len(uniq(rawWant)) {
				return fail("the set of " + showVals(nn))
			}
		} else {
			if _, isArr := zed.TypeUnder(got.Type()).(*zed.TypeArray); !isArr || !sameStrings(want, elems, false, false) {
				return fail("an array with the elements " + showVals(nn))
			}
			if run.orderDefined && !sameStrings(want, elems, false, true) {
				return vt.Failf("C10/groupby/collect/order", "%s: collect(%s)%s for key %s: input order is fixed and nothing spilled, want the elements in input order %s, got %s",
					run.name, spec.Arg, whereText(spec), m.showKeys([]string{r.fine}), showVals(nn), oracle.Show(got)), false
			}
		}
	case "dcount":
		if len(nonNull(vals)) == len(vals) {
			var ks, uks []string
			for _, v := range vals {
				ks = append(ks, valKey(v))
				uks = append(uks, underKey(v))
			}
			want := uint64(len(uniq(ks)))
			if len(uniq(uks)) != len(uniq(ks)) {
				// a named and an unnamed value with the same bytes: whether they count once or twice is not documented
				return nil, false
			}
			if got.Type() != zed.TypeUint64 || got.IsNull() || got.Uint() != want {
				return fail(fmt.Sprintf("%d(uint64)", want))
			}
		}
	case "any":
		if len(vals) == 0 {
			if !got.IsNull() {
				return fail("null")
			}
			return nil, false
		}
		for _, v := range vals {
			// (the type of a null result is not part of the claim)
			if valKey(v) == valKey(got) || v.IsNull() && got.IsNull() {
				return nil, false
			}
		}
		return fail("one of the consumed values")
	}
	return nil, false
}

// tagsValid reports whether every union tag inside the value is in range.
func tagsValid(typ zed.Type, b []byte) bool {
	if b == nil {
		return true
	}
	switch typ := typ.(type) {
	case *zed.TypeNamed:
		return tagsValid(typ.Type, b)
	case *zed.TypeError:
		return tagsValid(typ.Type, b)
	case *zed.TypeRecord:
		it := zcode.Bytes(b).Iter()
		for _, f := range typ.Fields {
			if it.Done() {
				return false
			}
			if !tagsValid(f.Type, it.Next()) {
				return false
			}
		}
	case *zed.TypeArray:
		for it := zcode.Bytes(b).Iter(); !it.Done(); {
			if !tagsValid(typ.Type, it.Next()) {
				return false
			}
		}
	case *zed.TypeSet:
		for it := zcode.Bytes(b).Iter(); !it.Done(); {
			if !tagsValid(typ.Type, it.Next()) {
				return false
			}
		}
	case *zed.TypeMap:
		for it := zcode.Bytes(b).Iter(); !it.Done(); {
			if !tagsValid(typ.KeyType, it.Next()) || it.Done() || !tagsValid(typ.ValType, it.Next()) {
				return false
			}
		}
	case *zed.TypeUnion:
		it := zcode.Bytes(b).Iter()
		tag := int(zed.DecodeInt(it.Next()))
		if tag < 0 || tag >= len(typ.Types) || it.Done() {
			return false
		}
		return tagsValid(typ.Types[tag], it.Next())
	}
	return true
}

// mixedWithComplex: >= 2 distinct types, at least one of them not primitive.
func mixedWithComplex(vals []zed.Value) bool {
	types := map[zed.Type]bool{}
	complex := false
	for _, v := range vals {
		t := zed.TypeUnder(v.Type())
		types[t] = true
		if !zed.IsPrimitiveType(t) {
			complex = true
		}
	}
	return len(types) >= 2 && complex
}

func showVals(vals []zed.Value) string {
	var parts []string
	for i, v := range vals {
		if i >= 12 {
			parts = append(parts, "...")
			break
		}
		parts = append(parts, oracle.Show(v))
	}
	return "[" + strings.Join(parts, " ") + "]"
}

// canonType renders a type with record fields and union members sorted (the
// fuse aggregate's field order depends on the order in which shapes are mixed
// in).  With collapse, duplicate members of a union are removed and a union of
// one member becomes that member (neutralises known finding C10-fuse-dup-union).
func canonType(t zed.Type, collapse bool) string {
	switch t := t.(type) {
	case *zed.TypeNamed:
		return t.Name + "=" + canonType(t.Type, collapse)
	case *zed.TypeRecord:
		var parts []string
		for _, f := range t.Fields {
			parts = append(parts, strconv.Quote(f.Name)+":"+canonType(f.Type, collapse))
		}
		sort.Strings(parts)
		return "{" + strings.Join(parts, ",") + "}"
	case *zed.TypeArray:
		return "[" + canonType(t.Type, collapse) + "]"
	case *zed.TypeSet:
		return "|[" + canonType(t.Type, collapse) + "]|"
	case *zed.TypeMap:
		return "|{" + canonType(t.KeyType, collapse) + ":" + canonType(t.ValType, collapse) + "}|"
	case *zed.TypeUnion:
		var parts []string
		for _, m := range t.Types {
			parts = append(parts, canonType(m, collapse))
		}
		sort.Strings(parts)
		if collapse {
			parts = uniq(parts)
			if len(parts) == 1 {
				return parts[0]
			}
		}
		return "(" + strings.Join(parts, ",") + ")"
	case *zed.TypeError:
		return "error(" + canonType(t.Type, collapse) + ")"
	}
	return zson.FormatType(t)
}

const dupUnion = "fused types differ only by duplicate members of a union"

// sameAgg is layer 2 for one aggregate: does this run's value agree with the
// baseline's?  "" if so.
func (m *gbModel) sameAgg(a int, idx []int, base, got zed.Value) string {
	spec := m.c.Aggs[a]
	switch spec.Func {
	case "any":
		return "" // any member is legal; membership is checked by layer 1
	case "sum", "avg":
		if base.Type() == zed.TypeFloat64 && got.Type() == zed.TypeFloat64 && !base.IsNull() && !got.IsNull() {
			vals := nonNull(m.consumed(a, idx))
			scale := absScale(vals)
			if spec.Func == "avg" && len(vals) > 0 {
				scale /= float64(len(vals))
			}
			if bf, gf := base.Float(), got.Float(); closeEnough(gf, bf, scale) || (bf != bf && gf != gf) {
				return ""
			}
			return "float results differ by more than 1e-9 relative"
		}
	case "collect", "union":
		be, ok1 := elemKeys(base)
		ge, ok2 := elemKeys(got)
		if ok1 && ok2 && base.IsNull() == got.IsNull() {
			if sameStrings(be, ge, spec.Func == "union", false) {
				return ""
			}
			return "element multisets differ"
		}
	case "fuse":
		if base.Type() == zed.TypeType && got.Type() == zed.TypeType && !base.IsNull() && !got.IsNull() {
			bt, err1 := zed.NewContext().LookupByValue(base.Bytes())
			gt, err2 := zed.NewContext().LookupByValue(got.Bytes())
			if err1 == nil && err2 == nil {
				if canonType(bt, false) == canonType(gt, false) {
					return ""
				}
				if canonType(bt, true) == canonType(gt, true) {
					return dupUnion
				}
				return "fused types differ (even with record fields and union members sorted)"
			}
		}
	}
	if base.IsNull() && got.IsNull() {
		return "" // the type of a null result is not part of the claim
	}
	if valKey(base) != valKey(got) {
		return "values differ"
	}
	return ""
}

// ---------------------------------------------------------------- run the case

func withLimit(limit int, f func()) {
	saved := groupby.DefaultLimit
	groupby.DefaultLimit = limit
	defer func() { groupby.DefaultLimit = saved }()
	f()
}

// summarize runs the case's program over rows (given by index order) with the table limit.
func (m *gbModel) summarize(order []int, limit int, o runOpts) ([]zed.Value, error) {
	rows := make([]zed.Value, len(order))
	for p, i := range order {
		rows[p] = m.rows[i]
	}
	o.batch = m.c.Batch
	var out []zed.Value
	var err error
	global := 1000000
	if m.c.LimitVia != "flag" {
		global = limit
	}
	withLimit(global, func() {
		out, err = runProgram(m.zctx, rows, m.c.program(limit), o)
	})
	return out, err
}

func identity(n int) []int {
	idx := make([]int, n)
	for i := range idx {
		idx[i] = i
	}
	return idx
}

func queryFailure(name string, err error) *vt.Failure {
	if isPanicErr(err) {
		return vt.Failf("C10/panic@"+panicFrame(err), "%s: %v", name, err)
	}
	return vt.Failf("C10/query-error", "%s: %v", name, err)
}

func runGBCase(c GBCase) *vt.Outcome {
	o := &vt.Outcome{}
	seq := reload(c.Rows)
	n := len(seq.Vals)
	if len(c.Perm) != n || len(c.Shards) != n {
		return &vt.Outcome{Skip: "malformed-case"}
	}
	m, skip, err := buildModel(c, seq.Zctx, seq.Vals)
	if err != nil {
		return &vt.Outcome{Skip: "per-row-evaluation-error"}
	}
	if skip != "" {
		return &vt.Outcome{Skip: skip}
	}
	// Known finding C10-fuse-null-partial: a fuse() aggregate that has consumed nothing for some group when
	// the table spills (or when partials are emitted) writes a null type value as its partial, and
	// agg.(*fuse).Result panics on it inside the group-by goroutine, which kills the process (it cannot be
	// observed in-process).  The class - a fuse aggregate that does not consume every row - is therefore
	// not executed: the aggregate is removed from the program and everything else is still checked.
	var keep []AggSpec
	for a, spec := range c.Aggs {
		risky := false
		if spec.Func == "fuse" {
			for i := range m.rows {
				if !m.whereOK[a][i] || m.argVals[a][i].IsMissing() {
					risky = true
				}
			}
		}
		if risky && vt.IsKnown(sigFuseNullPartial) {
			o.Known = appendOnce(o.Known, sigFuseNullPartial)
			continue
		}
		keep = append(keep, spec)
	}
	if len(keep) != len(c.Aggs) {
		c.Aggs = keep
		if m, skip, err = buildModel(c, seq.Zctx, seq.Vals); err != nil || skip != "" {
			return &vt.Outcome{Skip: "per-row-evaluation-error"}
		}
	}
	// labels
	multiType := false
	for _, fines := range m.fineOfCoarse {
		if len(fines) > 1 {
			multiType = true
		}
	}
	keyTypes := map[string]bool{}
	for j := range c.Keys {
		for i := range m.rows {
			keyTypes[fmt.Sprint(j)+string(zed.EncodeTypeValue(m.keyVals[j][i].Type()))] = true
		}
	}
	if multiType {
		o.Label("keys-equal-under-comparator-differing-in-type")
	}
	if len(keyTypes) > len(c.Keys) {
		o.Label("mixed-type-key-column")
	}
	o.Label(fmt.Sprintf("nkeys:%d", len(c.Keys)))
	for _, a := range c.Aggs {
		o.Label("agg:" + a.Func)
		if a.Where != "" {
			o.Label("agg-with-where")
		}
	}
	for _, k := range c.Keys {
		if k.Expr != k.Name {
			o.Label("computed-or-renamed-key")
		}
	}
	spilled := false
	for _, l := range tableLimits {
		if l < m.nFine {
			spilled = true
		}
	}
	if spilled {
		o.Label("spilled")
	}
	switch {
	case m.nFine > 5:
		o.Label("distinct-keys:>5")
	case m.nFine > 2:
		o.Label("distinct-keys:3-5")
	default:
		o.Label("distinct-keys:<=2")
	}
	o.NonTrivial = n > 0 && (multiType || len(keyTypes) > len(c.Keys) || spilled || c.NShards > 0)

	// 1. baseline: unsorted, direct, no spill
	ident := identity(n)
	baseOut, err := m.summarize(ident, 1000000, runOpts{})
	if err != nil {
		o.Fail = queryFailure("baseline", err)
		return o
	}
	base, f := m.checkRun(runInfo{name: "baseline", order: ident, spillLimit: 1000000, orderDefined: true}, baseOut, nil, o)
	if f != nil {
		o.Fail = f
		return o
	}
	// 2. table limits
	for _, l := range tableLimits[:3] {
		name := fmt.Sprintf("limit (table limit %d via %s)", l, c.LimitVia)
		out, err := m.summarize(ident, l, runOpts{})
		if err != nil {
			o.Fail = queryFailure(name, err)
			return o
		}
		if _, f := m.checkRun(runInfo{name: name, order: ident, spillLimit: l, orderDefined: l >= m.nFine}, out, base, o); f != nil {
			o.Fail = f
			return o
		}
	}
	// 3. permuted input, without and with spills
	for _, l := range []int{1000000, 2} {
		name := fmt.Sprintf("permuted (table limit %d)", l)
		out, err := m.summarize(c.Perm, l, runOpts{})
		if err != nil {
			o.Fail = queryFailure(name, err)
			return o
		}
		if _, f := m.checkRun(runInfo{name: name, order: c.Perm, spillLimit: l, orderDefined: l >= m.nFine, permuted: true}, out, base, o); f != nil {
			o.Fail = f
			return o
		}
	}
	// 4. really sorted and declared sorted input
	sortedRuns := c.SortOn >= 0 && c.SortOn < len(c.Keys)
	if sortedRuns && c.SortOn > 0 {
		// Known finding C10-sorted-non-first-key: the optimizer turns on the group-by's sorted-input mode when
		// the declared sort key is ANY group-by key, the operator assumes it is the FIRST: keys are released
		// early and come out twice, and with a spill the operator dereferences a nil maxSpillKey in its own
		// goroutine (process death).  Not executed while the finding is open.
		o.Label("sorted-on-non-first-key")
		if vt.IsKnown(sigSortedNonFirst) {
			o.Known = appendOnce(o.Known, sigSortedNonFirst)
			sortedRuns = false
		}
	}
	errorSortKey := false
	if sortedRuns {
		for _, v := range m.keyVals[c.SortOn] {
			if v.IsError() {
				errorSortKey = true
			}
		}
	}
	if sortedRuns {
		o.Label("sorted-variants")
		for _, desc := range []bool{false, true} {
			which := order.Asc
			if desc {
				which = order.Desc
			}
			cmp := expr.NewValueCompareFn(which, true)
			sorted := append([]int(nil), ident...)
			kv := m.keyVals[c.SortOn]
			sort.SliceStable(sorted, func(a, b int) bool { return cmp(kv[sorted[a]], kv[sorted[b]]) < 0 })
			for _, l := range []int{1000000, c.SortLimit} {
				name := fmt.Sprintf("sorted (%s on %s, declared; table limit %d; batch %d)", which, c.Keys[c.SortOn].Expr, l, c.Batch)
				if l < m.nFine && errorSortKey {
					// Known finding C10-sorted-spill-error-key: see known.json.  Not executed (it can also
					// dereference a nil maxSpillKey in the operator goroutine).
					if vt.IsKnown(sigSortedSpillErrorKey) {
						o.Known = appendOnce(o.Known, sigSortedSpillErrorKey)
						continue
					}
				}
				out, err := m.summarize(sorted, l, runOpts{sortKey: sortKeyOn(c.Keys[c.SortOn].Expr, desc)})
				if err != nil {
					o.Fail = queryFailure(name, err)
					return o
				}
				if _, f := m.checkRun(runInfo{name: name, order: sorted, spillLimit: l, orderDefined: l >= m.nFine}, out, base, o); f != nil {
					o.Fail = f
					return o
				}
			}
		}
	}
	// 5. partials-out per shard, partials-in over the concatenation
	{
		name := fmt.Sprintf("partials (%d shards, table limit %d)", c.NShards, c.ShardLimit)
		var partials []zed.Value
		for s := 0; s < c.NShards; s++ {
			var idx []int
			for i, sh := range c.Shards {
				if sh == s {
					idx = append(idx, i)
				}
			}
			out, err := m.summarize(idx, c.ShardLimit, runOpts{edit: editPartialsOut})
			if err != nil {
				o.Fail = queryFailure(name+" partials-out", err)
				return o
			}
			partials = append(partials, out...)
		}
		malformed := false
		for _, v := range partials {
			if !tagsValid(v.Type(), v.Bytes()) {
				malformed = true
			}
		}
		if malformed {
			// A partials-out stage that spilled emitted a collect/union partial with an invalid union tag
			// (known finding C10-spill-foreign-context); feeding it to the partials-in stage panics in the
			// operator goroutine, so the stage is not run.
			hasCU := false
			for _, a := range c.Aggs {
				if a.Func == "collect" || a.Func == "union" {
					hasCU = true
				}
			}
			if hasCU && c.ShardLimit < m.nFine && vt.IsKnown(sigForeignCtx) {
				o.Known = appendOnce(o.Known, sigForeignCtx)
				return o
			}
			o.Fail = vt.Failf(sigForeignCtx, "%s: a partials-out stage emitted a malformed value (invalid union tag)", name)
			return o
		}
		var out []zed.Value
		var err error
		global := 1000000
		if c.LimitVia != "flag" {
			global = c.ShardLimit
		}
		withLimit(global, func() {
			out, err = runProgram(m.zctx, partials, c.program(c.ShardLimit), runOpts{batch: c.Batch, edit: editPartialsIn})
		})
		if err != nil {
			o.Fail = queryFailure(name+" partials-in", err)
			return o
		}
		if _, f := m.checkRun(runInfo{name: name, spillLimit: c.ShardLimit, multiStage: true}, out, base, o); f != nil {
			o.Fail = f
			return o
		}
	}
	return o
}

var gbProp = &vt.Prop[GBCase]{
	Name: "TestGroupBy",
	Rule: "case = rows {k,j,h key columns (int64-only / string-only / mixed palettes incl. 1, 1(uint64), 1., 1(int32), 1ns, typed nulls, missing, named), i:int64, f:float64, b:bool, s:string, m:mixed} + " +
		"0..3 keys (plain, renamed, computed) + 1..4 aggregates from {count,sum,min,max,avg,and,or,collect,union,dcount,any,fuse} with optional where + batch size + permutation + shard split. " +
		"Runs: baseline (direct, unsorted, no spill); table limits 1,2,5 (groupby.DefaultLimit or `with -limit`); permuted input (no spill / limit 2); really sorted asc/desc on a plain key and declared so (no spill / low limit); " +
		"partials-out per shard (1..4) then partials-in (DAG edited as optimizer.liftIntoParPaths does).  Layer 1 on every run: one row per distinct (type,value) key with the model's count; aggregate values predicted for homogeneous columns. " +
		"Layer 2: every run's aggregates equal the baseline's per key.  Non-trivial: rows>0 and (keys of different types, or a table limit below the number of distinct keys, or partials).",
	Gen: genGBCase,
	Run: runGBCase,
}

func init() { gbProp.Register() }

func TestGroupBy(t *testing.T) { gbProp.Check(t) }
func TestReplay(t *testing.T)  { vt.TestReplay(t) }
