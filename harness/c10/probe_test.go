package c10

import (
	"encoding/json"
	"fmt"
	"os"
	"strconv"
	"strings"
	"testing"

	zed "github.com/brimdata/super"
	"github.com/brimdata/super/runtime/sam/op/groupby"
	"github.com/brimdata/super/zson"

	"verif/gen"
	"verif/oracle"
)

func envInt(name string, def int) int {
	if n, err := strconv.Atoi(os.Getenv(name)); err == nil {
		return n
	}
	return def
}

// TestProbe is a development aid: C10_PROG='<program>' C10_IN='<zson values>'
// [C10_LIMIT=n] [C10_SORT=field[:desc]] [C10_BATCH=n] [C10_PARTIALS=nshards]
func TestProbe(t *testing.T) {
	prog := os.Getenv("C10_PROG")
	if prog == "" {
		t.Skip("C10_PROG not set")
	}
	var seq gen.Seq
	if f := os.Getenv("C10_INFILE"); f != "" {
		b, err := os.ReadFile(f)
		if err != nil {
			t.Fatal(err)
		}
		var rf struct {
			Case struct {
				Rows gen.Seq `json:"rows"`
			} `json:"case"`
		}
		if err := json.Unmarshal(b, &rf); err != nil {
			t.Fatal(err)
		}
		seq = reload(rf.Case.Rows)
	} else {
		seq = reload(gen.SeqFromZSON(os.Getenv("C10_IN")))
	}
	saved := groupby.DefaultLimit
	groupby.DefaultLimit = envInt("C10_LIMIT", saved)
	defer func() { groupby.DefaultLimit = saved }()
	o := runOpts{batch: envInt("C10_BATCH", 100)}
	if s := os.Getenv("C10_SORT"); s != "" {
		name, dir, _ := strings.Cut(s, ":")
		o.sortKey = sortKeyOn(name, dir == "desc")
	}
	show := func(label string, out []zed.Value, err error) {
		fmt.Printf("%s err=%v\n", label, err)
		for _, v := range out {
			fmt.Printf("   %s   :: %s  validate=%v\n", oracle.Show(v), zson.FormatType(v.Type()), v.Validate())
		}
	}
	if n := envInt("C10_PARTIALS", 0); n > 0 {
		var partials []zed.Value
		for s := 0; s < n; s++ {
			var shard []zed.Value
			for i, v := range seq.Vals {
				if i%n == s {
					shard = append(shard, v)
				}
			}
			po := o
			po.edit = editPartialsOut
			out, err := runProgram(seq.Zctx, shard, prog, po)
			show(fmt.Sprintf("partials-out shard %d", s), out, err)
			partials = append(partials, out...)
		}
		pi := runOpts{batch: o.batch, edit: editPartialsIn}
		out, err := runProgram(seq.Zctx, partials, prog, pi)
		show("partials-in", out, err)
		return
	}
	out, err := runProgram(seq.Zctx, seq.Vals, prog, o)
	show("direct", out, err)
}

// TestMakeReplay is a development aid that writes a TestGroupBy replay file
// from a literal description:
// C10_MKREPLAY='<file>|<sig>|<keys: k,j or kk:=k>|<aggs: name:func:arg:where;...>|<sort_on>|<batch>|<rows zson>'
func TestMakeReplay(t *testing.T) {
	spec := os.Getenv("C10_MKREPLAY")
	if spec == "" {
		t.Skip("C10_MKREPLAY not set")
	}
	p := strings.SplitN(spec, "|", 7)
	c := GBCase{Rows: gen.SeqFromZSON(p[6]), LimitVia: "flag", NShards: 1, ShardLimit: 1, SortLimit: 1}
	if p[2] != "" {
		for _, k := range strings.Split(p[2], ",") {
			name, e, ok := strings.Cut(k, ":=")
			if !ok {
				e = name
			}
			c.Keys = append(c.Keys, KeySpec{Name: name, Expr: e})
		}
	}
	for _, a := range strings.Split(p[3], ";") {
		f := strings.SplitN(a, ":", 4)
		c.Aggs = append(c.Aggs, AggSpec{Name: f[0], Func: f[1], Arg: f[2], Where: f[3]})
	}
	c.SortOn, _ = strconv.Atoi(p[4])
	c.Batch, _ = strconv.Atoi(p[5])
	n := len(c.Rows.Vals)
	c.Perm = identity(n)
	c.Shards = make([]int, n)
	raw, err := json.Marshal(c)
	if err != nil {
		t.Fatal(err)
	}
	rf := map[string]any{"test": "TestGroupBy", "sig": p[1], "expect": "known", "case": json.RawMessage(raw)}
	b, _ := json.MarshalIndent(rf, "", " ")
	if err := os.WriteFile(p[0], append(b, '\n'), 0o644); err != nil {
		t.Fatal(err)
	}
}
