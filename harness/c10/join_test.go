package c10

import (
	"context"
	"fmt"
	"sort"
	"strconv"
	"strings"
	"testing"

	zed "github.com/brimdata/super"
	"github.com/brimdata/super/order"
	"github.com/brimdata/super/pkg/field"
	"github.com/brimdata/super/runtime"
	"github.com/brimdata/super/runtime/sam/expr"
	"github.com/brimdata/super/runtime/sam/op"
	"github.com/brimdata/super/runtime/sam/op/join"
	sortop "github.com/brimdata/super/runtime/sam/op/sort"
	"github.com/brimdata/super/zbuf"
	"pgregory.net/rapid"

	"verif/gen"
	"verif/oracle"
	"verif/vt"
)

// JoinCase: left rows {k, lv, [x]} and right rows {k, rv}.  Every row HAS its
// key field (rows whose join key is missing are outside the claim).  The two
// inputs travel in one stream and are separated by `fork (=> has(lv) => has(rv))`.
type JoinCase struct {
	Left  gen.Seq `json:"left"`
	Right gen.Seq `json:"right"`
	Kind  string  `json:"kind"` // inner, left, right, anti
	Batch int     `json:"batch"`
	PermL []int   `json:"perm_left"`
	PermR []int   `json:"perm_right"`
	// Mix decides how the two inputs are interleaved in the one stream of the
	// unsorted runs: true takes the next left row, false the next right row.
	Mix []bool `json:"mix"`
}

func (c JoinCase) program() string { return c.programWithLegs("", "") }

// programWithLegs appends an operator (e.g. " | sort k") to the left and/or right leg of the fork, which is how a
// query declares an order for one input of the join only.
func (c JoinCase) programWithLegs(leftLeg, rightLeg string) string {
	p := "fork (=> has(lv)" + leftLeg + " => has(rv)" + rightLeg + ") | " + c.Kind + " join on k=k"
	switch c.Kind {
	case "anti":
	case "right":
		p += " hit:=lv"
	default:
		p += " hit:=rv"
	}
	return p
}

var joinMixedKeyPool = []string{"1", "1(uint64)", "1.", "1(int32)", "2", "2.", "0", "-1", "2.5", `"a"`, `"b"`, `"1"`, "true",
	"null(int64)", "null(string)", "null", "null(int64)", "10.0.0.1", "80(port=uint16)", "80(uint16)", "1ns"}

func genJoinCase(t *rapid.T) JoinCase {
	maxRows := 25
	if vt.Thorough() {
		maxRows = 120
	}
	var c JoinCase
	c.Kind = rapid.SampledFrom([]string{"inner", "left", "right", "anti"}).Draw(t, "kind")
	var pool []string
	switch rapid.SampledFrom([]string{"int", "int", "string", "mixed", "mixed"}).Draw(t, "keymode") {
	case "int":
		pool = intKeyPool
	case "string":
		pool = stringKeyPool
	default:
		pool = joinMixedKeyPool
	}
	np := rapid.SampledFrom([]int{1, 2, 3, 4, 6}).Draw(t, "npalette")
	var palette []string
	for i := 0; i < np; i++ {
		palette = append(palette, rapid.SampledFrom(pool).Draw(t, "keylit"))
	}
	nl := rapid.IntRange(0, maxRows).Draw(t, "nleft")
	nr := rapid.IntRange(0, maxRows).Draw(t, "nright")
	var left, right []string
	for i := 0; i < nl; i++ {
		row := fmt.Sprintf("{k:%s,lv:%d", rapid.SampledFrom(palette).Draw(t, "lk"), 100+i)
		if rapid.IntRange(0, 3).Draw(t, "extra?") == 0 {
			row += ",x:" + strconv.Quote(rapid.SampledFrom(sPool).Draw(t, "x"))
		}
		left = append(left, row+"}")
	}
	for i := 0; i < nr; i++ {
		right = append(right, fmt.Sprintf("{k:%s,rv:%d}", rapid.SampledFrom(palette).Draw(t, "rk"), 200+i))
	}
	c.Left = gen.SeqFromZSON(strings.Join(left, "\n"))
	c.Right = gen.SeqFromZSON(strings.Join(right, "\n"))
	c.Batch = rapid.SampledFrom([]int{1, 2, 5, 100}).Draw(t, "batch")
	c.PermL = rapid.Permutation(identity(nl)).Draw(t, "perml")
	c.PermR = rapid.Permutation(identity(nr)).Draw(t, "permr")
	c.Mix = make([]bool, nl+nr)
	for i := range c.Mix {
		c.Mix[i] = rapid.Bool().Draw(t, "mix")
	}
	return c
}

func fieldOf(v zed.Value, name string) zed.Value {
	fields, vals, ok := fieldsOf(v)
	if ok {
		for i, f := range fields {
			if f.Name == name {
				return vals[i]
			}
		}
	}
	panic("harness: join row without field " + name + ": " + oracle.Show(v))
}

func keyOf(v zed.Value) zed.Value { return fieldOf(v, "k") }

// interleave merges the two inputs into one stream following mix.
func interleave(l, r []zed.Value, mix []bool) []zed.Value {
	var out []zed.Value
	i, j := 0, 0
	for _, takeLeft := range mix {
		if takeLeft && i < len(l) || j >= len(r) {
			if i < len(l) {
				out = append(out, l[i])
				i++
			}
		} else {
			out = append(out, r[j])
			j++
		}
	}
	out = append(out, l[i:]...)
	return append(out, r[j:]...)
}

// joinModel is the nested-loop reference join for single-typed keys without nulls.
func joinModel(zctx *zed.Context, kind string, l, r []zed.Value) []zed.Value {
	// for a right join the roles are reversed: every right row, with hit:=lv of the matching left rows
	payload := "rv"
	if kind == "right" {
		l, r = r, l
		payload = "lv"
	}
	var out []zed.Value
	for _, lv := range l {
		lk := valKey(keyOf(lv))
		matched := false
		for _, rv := range r {
			if valKey(keyOf(rv)) != lk {
				continue
			}
			matched = true
			if kind == "anti" {
				break
			}
			p := fieldOf(rv, payload)
			lt := zed.TypeRecordOf(lv.Type())
			fields := append(append([]zed.Field(nil), lt.Fields...), zed.NewField("hit", p.Type()))
			typ := zctx.MustLookupTypeRecord(fields)
			var b []byte
			b = append(b, lv.Bytes()...)
			b = p.Encode(b)
			out = append(out, zed.NewValue(typ, b))
		}
		if !matched && kind != "inner" {
			out = append(out, lv)
		}
	}
	return out
}

func runJoinCase(c JoinCase) *vt.Outcome {
	o := &vt.Outcome{}
	ls, rs := reload(c.Left), reload(c.Right)
	// move the right rows into the left context
	both := reload(gen.Seq{Zctx: ls.Zctx, Vals: append(append([]zed.Value(nil), ls.Vals...), rs.Vals...)})
	zctx := both.Zctx
	l, r := both.Vals[:len(ls.Vals)], both.Vals[len(ls.Vals):]
	if len(c.PermL) != len(l) || len(c.PermR) != len(r) || len(c.Mix) != len(l)+len(r) {
		return &vt.Outcome{Skip: "malformed-case"}
	}
	// classify the key column
	types := map[zed.Type]bool{}
	hasNull := false
	multL, multR := map[string]int{}, map[string]int{}
	for _, v := range l {
		k := keyOf(v)
		types[k.Type()] = true
		hasNull = hasNull || k.IsNull()
		multL[valKey(k)]++
	}
	for _, v := range r {
		k := keyOf(v)
		types[k.Type()] = true
		hasNull = hasNull || k.IsNull()
		multR[valKey(k)]++
	}
	singleTyped := !hasNull && (len(types) == 0 || len(types) == 1 && (types[zed.TypeInt64] || types[zed.TypeString]))
	manyMany, oneSide := false, false
	for k, n := range multL {
		if n >= 2 && multR[k] >= 2 {
			manyMany = true
		}
		if multR[k] == 0 {
			oneSide = true
		}
	}
	o.Label("kind:" + c.Kind)
	if singleTyped {
		o.Label("layer1:single-typed-keys")
	} else {
		o.Label("layer2-only:mixed-or-null-keys")
	}
	if hasNull {
		o.Label("null-keys")
	}
	if manyMany {
		o.Label("many-to-many-key")
	}
	if oneSide {
		o.Label("unmatched-left-key")
	}
	o.NonTrivial = manyMany

	prog := c.program()
	run := func(name string, stream []zed.Value, ro runOpts) ([]zed.Value, *vt.Failure) {
		ro.batch = c.Batch
		out, err := runProgram(zctx, stream, prog, ro)
		if err != nil {
			return nil, queryFailure("join "+name, err)
		}
		return out, nil
	}
	// baseline: unsorted input (the join sorts both sides itself)
	base, f := run("baseline", interleave(l, r, c.Mix), runOpts{})
	if f != nil {
		o.Fail = f
		return o
	}
	// layer 1
	if singleTyped {
		want := joinModel(zctx, c.Kind, l, r)
		if d := oracle.SameMultiset(want, base); d != "" {
			o.Fail = vt.Failf("C10/join/"+c.Kind+"/differs-from-nested-loop", "%s over %d left and %d right rows: %s", prog, len(l), len(r), d)
			return o
		}
	}
	// layer 2: permuted inputs
	pl, pr := make([]zed.Value, len(l)), make([]zed.Value, len(r))
	for i, j := range c.PermL {
		pl[i] = l[j]
	}
	for i, j := range c.PermR {
		pr[i] = r[j]
	}
	rev := make([]bool, len(c.Mix))
	for i := range rev {
		rev[i] = !c.Mix[len(c.Mix)-1-i]
	}
	out, f := run("permuted", interleave(pl, pr, rev), runOpts{})
	if f != nil {
		o.Fail = f
		return o
	}
	if d := oracle.SameMultiset(base, out); d != "" {
		o.Fail = vt.Failf("C10/join/"+c.Kind+"/permutation-dependent", "%s: permuting the inputs changes the result: %s", prog, d)
		return o
	}
	// the join's own sorts spilling
	func() {
		saved := sortop.MemMaxBytes
		sortop.MemMaxBytes = 16
		defer func() { sortop.MemMaxBytes = saved }()
		out, f = run("sort-spill", interleave(l, r, c.Mix), runOpts{})
	}()
	if f != nil {
		o.Fail = f
		return o
	}
	if d := oracle.SameMultiset(base, out); d != "" {
		o.Fail = vt.Failf("C10/join/"+c.Kind+"/sort-spill-dependent", "%s: with sort.MemMaxBytes=16 the result differs: %s", prog, d)
		return o
	}
	// One leg (or both, in the same or in opposite directions) ends in an explicit sort on the key: the compiler then
	// knows an order for that input only and must insert its own sort on the other.  A sort drains its leg, so the
	// fork back-pressure deadlock of the declared-sorted stream cannot occur here.  Descending leg sorts are left out
	// when a key is null (C07's open finding desc-null-keys: the inserted sort and the join disagree on where nulls go).
	legSorts := []string{"", " | sort k"}
	if !hasNull {
		legSorts = append(legSorts, " | sort -r k")
	}
	for _, ll := range legSorts {
		for _, rl := range legSorts {
			if ll == "" && rl == "" {
				continue
			}
			p := c.programWithLegs(ll, rl)
			ro := runOpts{batch: c.Batch}
			out, err := runProgram(zctx, interleave(pl, pr, rev), p, ro)
			if err != nil {
				o.Fail = queryFailure("join with sorted legs", err)
				return o
			}
			if d := oracle.SameMultiset(base, out); d != "" {
				o.Fail = vt.Failf("C10/join/"+c.Kind+"/leg-sort-dependent", "%s gives a different result than %s on the same rows: %s", p, prog, d)
				return o
			}
		}
	}
	o.Label("leg-sorted-variants")
	// Really sorted and declared sorted inputs.  These runs build the operator with join.New, exactly as
	// compiler/kernel does after the optimizer has set Join.LeftDir/RightDir from the declared order of the
	// two parents: two separate sorted inputs, no sort inserted.  (Declaring the order on the ONE forked
	// stream instead deadlocks inside the flowgraph - fork back-pressure against the merge join, see
	// known.json C10-join-fork-deadlock - so that path is not executed.)
	for _, desc := range []bool{false, true} {
		which := order.Asc
		dir := order.Up
		if desc {
			which = order.Desc
			dir = order.Down
		}
		cmp := expr.NewValueCompareFn(which, true)
		sl, sr := append([]zed.Value(nil), l...), append([]zed.Value(nil), r...)
		sort.SliceStable(sl, func(a, b int) bool { return cmp(keyOf(sl[a]), keyOf(sl[b])) < 0 })
		sort.SliceStable(sr, func(a, b int) bool { return cmp(keyOf(sr[a]), keyOf(sr[b])) < 0 })
		name := fmt.Sprintf("sorted %s and declared", which)
		out, err := runJoinDirect(zctx, c.Kind, sl, sr, dir, c.Batch)
		if err != nil {
			o.Fail = queryFailure("join "+name, err)
			return o
		}
		if d := oracle.SameMultiset(base, out); d != "" {
			o.Fail = vt.Failf("C10/join/"+c.Kind+"/declared-sorted-differs", "%s: inputs really sorted %s on k and declared so (join.New with both directions set) give a different result than unsorted input: %s", prog, which, d)
			return o
		}
	}
	return o
}

var joinProp = &vt.Prop[JoinCase]{
	Name: "TestJoin",
	Rule: "case = left rows {k,lv,[x]} and right rows {k,rv} (every row has its key; key palettes int64-only / string-only / mixed incl. 1, 1(uint64), 1., typed nulls, named) + kind in {inner,left,right,anti} + batch size + permutations; " +
		"both inputs travel in one stream split by `fork (=> has(lv) => has(rv)) | <kind> join on k=k hit:=rv` (right: hit:=lv).  Layer 1 (keys all int64 or all string, no nulls): output multiset = nested-loop join with the documented shape. " +
		"Layer 2 (all cases): same multiset for permuted inputs, for sort.MemMaxBytes=16 (the join's inserted sorts spill), for every combination of an explicit `sort k` / `sort -r k` at the end of one or both fork legs (an order known to the compiler for one input only, or opposite orders; descending only without null keys), and for inputs really sorted asc/desc on k and declared so (operator built with join.New and both directions set, as the kernel does).  Non-trivial: some key with multiplicity >=2 on both sides.",
	Gen: genJoinCase,
	Run: runJoinCase,
}

func init() { joinProp.Register() }

func TestJoin(t *testing.T) { joinProp.Check(t) }

// runJoinDirect builds the join operator the way compiler/kernel.(*Builder).compileSeq
// does for a dag.Join whose LeftDir/RightDir are both dir.
func runJoinDirect(zctx *zed.Context, kind string, left, right []zed.Value, dir order.Direction, batch int) ([]zed.Value, error) {
	rctx := runtime.NewContext(context.Background(), zctx)
	defer rctx.Cancel()
	key := func() expr.Evaluator { return expr.NewDottedExpr(zctx, field.Path{"k"}) }
	var lhs []*expr.Lval
	var rhs []expr.Evaluator
	payload := "rv"
	if kind == "right" {
		payload = "lv"
	}
	if kind != "anti" {
		lhs = append(lhs, expr.NewLval([]expr.LvalElem{&expr.StaticLvalElem{Name: "hit"}}))
		rhs = append(rhs, expr.NewDottedExpr(zctx, field.Path{payload}))
	}
	lp := zbuf.Puller(&batchScanner{src: &batchSource{vals: left, size: batch}, ectx: expr.NewContext()})
	rp := zbuf.Puller(&batchScanner{src: &batchSource{vals: right, size: batch}, ectx: expr.NewContext()})
	var anti, inner bool
	switch kind {
	case "anti":
		anti = true
	case "inner":
		inner = true
	case "right":
		lp, rp = rp, lp
	}
	j, err := join.New(rctx, anti, inner, lp, rp, key(), key(), dir, dir, lhs, rhs, expr.Resetters{})
	if err != nil {
		return nil, err
	}
	puller := op.NewCatcher(j)
	var out []zed.Value
	for {
		b, err := puller.Pull(false)
		if err != nil {
			return out, err
		}
		if b == nil {
			return out, nil
		}
		for _, v := range b.Values() {
			out = append(out, v.Copy())
		}
		b.Unref()
	}
}
