PROP = dict(
        pkg="c10", level="exploration",
        rule="C10: generated summarize programs (0..3 keys incl. computed, 1..4 aggregates with where clauses) and joins (inner/left/right/anti) over generated rows; reference model where semantics are unambiguous, metamorphic equality with a baseline run for input permutations, table limits {1,2,5,10^6}, really-sorted-and-declared input, partials-out|partials-in over 1..4 shards, sort spills",
        assumptions=[
            "per-row values of key/argument/where expressions are obtained by running `yield <expr>` through the same expression evaluator; grouping, counting and aggregation over them are the harness's own",
            "aggregate values are predicted only for homogeneous columns (int64, float64 with tolerance 1e-9 relative to the sum of |x|, bool, collect/union/dcount/any by value identity); everything else is compared with the baseline run only",
            "a spill is taken to have been possible when the table limit is below the number of distinct (type,value) keys; not observed inside the operator",
            "the partials decomposition is built by editing the optimized dag.Summarize (PartialsOut / PartialsIn with key RHS:=LHS) exactly as optimizer.liftIntoParPaths does",
            "declared-sorted joins are executed with join.New over two separate sorted inputs (what the kernel builds once the optimizer has set both directions); the same declaration on one forked stream deadlocks (known finding) and is not executed",
            "classes covered by the open findings in known.json are neutralised (not executed where they would kill the process) and counted",
        ],
        level_text="Property-based: rapid-generated programs, inputs and configurations; every case is executed in ~10 configurations (limits, permutation, sorted+declared, partials) and checked against a harness-side naive group-by/nested-loop join where semantics are unambiguous and against its own baseline run otherwise.",
        level_note="Trusted: the runtime's expression evaluator for per-row key/argument values, the harness's naive group-by and nested-loop join, the ZSON parser used to build rows. Not covered: every() time bins, collect_map, joins with missing keys (outside the claim), the vector runtime.",
        technique="property-based testing (rapid) with a two-layer oracle: reference model + metamorphic relations",
        tests=[dict(name="TestGroupBy", quick=(8, 250), thorough=(16, 1000), timeout=dict(quick=1500, thorough=6000)),
               dict(name="TestJoin", quick=(8, 400), thorough=(16, 3000))],
)
