package c18

import (
	"bytes"
	"context"
	"errors"
	"fmt"
	"io"
	"math"
	"testing"

	zed "github.com/brimdata/super"
	"github.com/brimdata/super/compiler/optimizer/demand"
	"github.com/brimdata/super/pkg/storage"
	"github.com/brimdata/super/zcode"
	"github.com/brimdata/super/zio"
	"github.com/brimdata/super/zio/anyio"
	"github.com/brimdata/super/zio/emitter"
	"github.com/brimdata/super/zio/jsonio"
	"github.com/brimdata/super/zio/zngio"
	"github.com/brimdata/super/zio/zsonio"
	"pgregory.net/rapid"

	"verif/gen"
	"verif/oracle"
	"verif/vt"
)

func TestMain(m *testing.M) { vt.Main(m) }

var errSink = errors.New("injected sink failure")

// sink is an io.WriteCloser whose k-th Write fails.
type sink struct {
	buf           bytes.Buffer
	writes        int
	failAt        int    // 1-based; 0 = never
	mode          string // "oneshot", "sticky", "short"
	failed        bool   // a write failed (bytes did not all reach the sink)
	inClose       bool   // set by the runner while Close is in progress
	failedInClose bool
	afterFail     int // successful writes after the failure
}

func (s *sink) Write(p []byte) (int, error) {
	s.writes++
	if s.failAt > 0 && (s.writes == s.failAt || (s.mode == "sticky" && s.writes > s.failAt)) {
		if !s.failed {
			s.failedInClose = s.inClose
		}
		s.failed = true
		if s.mode == "short" {
			n := len(p) / 2
			s.buf.Write(p[:n])
			return n, io.ErrShortWrite
		}
		return 0, errSink
	}
	if s.failed {
		s.afterFail++
	}
	s.buf.Write(p)
	return len(p), nil
}

func (s *sink) Close() error { return nil }

// putEngine is a storage.Engine that only supports Put, returning the sink.
type putEngine struct {
	storage.Engine
	s *sink
}

func (e *putEngine) Put(context.Context, *storage.URI) (io.WriteCloser, error) { return e.s, nil }

type Case struct {
	Format   string  `json:"format"`
	Via      string  `json:"via"` // "anyio" or "emitter" (buffered file path)
	Compress bool    `json:"compress"`
	Frame    int     `json:"frame"`
	Pretty   int     `json:"pretty"`
	Seq      gen.Seq `json:"seq"`
}

var formats = []string{"zng", "zson", "zjson", "json", "csv", "tsv", "zeek", "table", "text", "vng"}

var flatPrims = []zed.Type{zed.TypeString, zed.TypeInt64, zed.TypeUint64, zed.TypeFloat64, zed.TypeBool, zed.TypeTime,
	zed.TypeDuration, zed.TypeIP, zed.TypeNet, zed.TypeInt32, zed.TypeUint8}

func genCase(t *rapid.T) Case {
	c := Case{
		Format:   rapid.SampledFrom(formats).Draw(t, "format"),
		Via:      rapid.SampledFrom([]string{"anyio", "anyio", "emitter"}).Draw(t, "via"),
		Compress: rapid.Bool().Draw(t, "compress"),
		Frame:    rapid.SampledFrom([]int{1, 2, 7, 64, 300, 4096, zngio.DefaultFrameThresh}).Draw(t, "frame"),
		Pretty:   rapid.SampledFrom([]int{0, 0, 2, 4}).Draw(t, "pretty"),
	}
	maxLen := 24
	if vt.Thorough() {
		maxLen = 120
	}
	switch c.Format {
	case "csv", "tsv", "zeek", "table", "text":
		// flat records over 1 (csv/tsv) or 1..3 (zeek/table/text) shapes of friendly primitive types
		nshape := 1
		if c.Format != "csv" && c.Format != "tsv" {
			nshape = rapid.IntRange(1, 3).Draw(t, "nshape")
		}
		zctx := zed.NewContext()
		tg := &gen.TypeGen{Zctx: zctx, Opts: gen.TypeOpts{SimpleNames: true}}
		vg := &gen.ValGen{Zctx: zctx, Types: tg}
		var shapes []zed.Type
		for i := 0; i < nshape; i++ {
			n := rapid.IntRange(1, 4).Draw(t, "nf")
			names := rapid.Permutation(gen.SimpleFieldNames).Draw(t, "names")
			fields := make([]zed.Field, n)
			for j := range fields {
				ft := rapid.SampledFrom(flatPrims).Draw(t, "ft")
				if c.Format != "csv" && c.Format != "tsv" && rapid.IntRange(0, 5).Draw(t, "arr?") == 0 {
					ft = zctx.LookupTypeArray(ft)
				}
				fields[j] = zed.NewField(names[j], ft)
			}
			shapes = append(shapes, zctx.MustLookupTypeRecord(fields))
		}
		n := rapid.IntRange(0, maxLen).Draw(t, "n")
		c.Seq = gen.Seq{Zctx: zctx}
		cur := 0
		for i := 0; i < n; i++ {
			if rapid.IntRange(0, 3).Draw(t, "sw") == 0 {
				cur = rapid.IntRange(0, nshape-1).Draw(t, "shape")
			}
			c.Seq.Vals = append(c.Seq.Vals, vg.Value(t, shapes[cur]))
		}
	default:
		// Identifier-only names: quoting of exotic names in text formats is C02's subject.
		c.Seq = gen.DrawSeq(t, gen.SeqOpts{MaxLen: maxLen, MaxTypes: 4, Types: gen.TypeOpts{SimpleNames: true}})
		if c.Format == "json" {
			// JSON has no spelling for non-finite floats (the writer panics on them); outside this property.
			for i, v := range c.Seq.Vals {
				c.Seq.Vals[i] = oracle.MapLeaves(v, finite)
			}
		}
	}
	return c
}

func finite(typ zed.Type, body zcode.Bytes) zcode.Bytes {
	if zed.IsFloat(typ.ID()) {
		if f := zed.DecodeFloat(body); math.IsInf(f, 0) || math.IsNaN(f) {
			switch typ.ID() {
			case zed.IDFloat16:
				return zed.EncodeFloat16(1)
			case zed.IDFloat32:
				return zed.EncodeFloat32(1)
			}
			return zed.EncodeFloat64(1)
		}
	}
	return body
}

func (c Case) opts() anyio.WriterOpts {
	return anyio.WriterOpts{
		Format: c.Format,
		ZNG:    &zngio.WriterOpts{Compress: c.Compress, FrameThresh: c.Frame},
		ZSON:   zsonio.WriterOpts{Pretty: c.Pretty},
		JSON:   jsonio.WriterOpts{Pretty: c.Pretty},
	}
}

type result struct {
	s        *sink
	writeErr error // first error from a Write call
	closeErr error
	written  int // values accepted before the first Write error
}

func (c Case) runOnce(failAt int, mode string) (*result, error) {
	s := &sink{failAt: failAt, mode: mode}
	var w zio.WriteCloser
	var err error
	if c.Via == "emitter" {
		w, err = emitter.NewFileFromURI(context.Background(), &putEngine{s: s}, storage.MustParseURI("file:///out"), false, c.opts())
	} else {
		w, err = anyio.NewWriter(s, c.opts())
	}
	if err != nil {
		return nil, err
	}
	r := &result{s: s}
	for _, v := range c.Seq.Vals {
		if err := w.Write(v); err != nil {
			r.writeErr = err
			break
		}
		r.written++
	}
	s.inClose = true
	r.closeErr = w.Close()
	return r, nil
}

func readBack(format string, b []byte) (int, []zed.Value, error) {
	zctx := zed.NewContext()
	rc, err := anyio.NewReaderWithOpts(zctx, bytes.NewReader(b), demand.All(), anyio.ReaderOpts{Format: format})
	if err != nil {
		return 0, nil, err
	}
	defer rc.Close()
	var out []zed.Value
	for {
		v, err := rc.Read()
		if err != nil {
			return len(out), out, err
		}
		if v == nil {
			return len(out), out, nil
		}
		out = append(out, v.Copy())
	}
}

// eachValueRoundTrips reports whether every value, written alone in the format, reads back as one value.
func eachValueRoundTrips(format string, vals []zed.Value) bool {
	for _, v := range vals {
		s := &sink{}
		w, err := anyio.NewWriter(s, anyio.WriterOpts{Format: format})
		if err != nil {
			return false
		}
		if w.Write(v) != nil || w.Close() != nil {
			return false
		}
		if n, _, err := readBack(format, s.buf.Bytes()); err != nil || n != 1 {
			return false
		}
	}
	return true
}

// faultPoints lists the sink writes at which a fault is injected: every write when the output takes at most 300, else
// the first 100, the last 100 and 100 evenly spaced ones in between (each injected run costs O(W), so enumerating
// all of a W-write output is quadratic; only the thorough tier generates outputs that long).
func faultPoints(W int) []int {
	var ks []int
	if W <= 300 {
		for k := 1; k <= W; k++ {
			ks = append(ks, k)
		}
		return ks
	}
	for k := 1; k <= 100; k++ {
		ks = append(ks, k)
	}
	step := (W - 200) / 100
	for i, k := 0, 101; i < 100 && k <= W-100; i, k = i+1, k+step {
		ks = append(ks, k)
	}
	for k := W - 99; k <= W; k++ {
		ks = append(ks, k)
	}
	return ks
}

func runCase(c Case) *vt.Outcome {
	o := &vt.Outcome{}
	o.Label("format:"+c.Format, "via:"+c.Via)
	dry, err := c.runOnce(0, "")
	if err != nil {
		return &vt.Outcome{Skip: "writer-constructor-error"}
	}
	if dry.writeErr != nil || dry.closeErr != nil {
		// The writer refuses this input for format reasons (e.g. CSV with
		// non-uniform records); no sink fault is involved.
		return &vt.Outcome{Skip: "format-refuses-input:" + c.Format}
	}
	W := dry.s.writes
	o.Evals = 1
	// fault-free: the bytes are a complete, readable stream
	switch c.Format {
	case "zng", "zson", "zjson", "vng", "json":
		if c.Format == "vng" && len(c.Seq.Vals) == 0 {
			break
		}
		n, vals, err := readBack(c.Format, dry.s.buf.Bytes())
		if (err != nil || n != len(c.Seq.Vals)) && (c.Format == "zson" || c.Format == "zjson") && !eachValueRoundTrips(c.Format, c.Seq.Vals) {
			// some value does not survive the text format on its own: a formatter/parser defect of the kind C02
			// decides, not a property of the output stream
			o.Label("text-format-value-defect(C02 class):" + c.Format)
			err, n = nil, len(c.Seq.Vals)
		}
		if err != nil {
			o.Fail = vt.Failf("C18/"+c.Format+"/faultfree-unreadable", "fault-free output of %d values is not readable: %v", len(c.Seq.Vals), err)
			return o
		}
		if n != len(c.Seq.Vals) {
			o.Fail = vt.Failf("C18/"+c.Format+"/faultfree-count", "fault-free output has %d values, wrote %d", n, len(c.Seq.Vals))
			return o
		}
		if c.Format == "zng" {
			if d := oracle.Same(c.Seq.Vals, vals); d != "" {
				o.Fail = vt.Failf("C18/zng/faultfree-differs", "%s", d)
				return o
			}
		}
	}
	if W >= 3 {
		o.Label("multi-write")
	}
	for _, k := range faultPoints(W) {
		for _, mode := range []string{"oneshot", "sticky", "short"} {
			r, err := c.runOnce(k, mode)
			if err != nil {
				continue
			}
			o.Evals++
			if !r.s.failed {
				continue
			}
			kclass := "first"
			switch {
			case r.s.failedInClose:
				kclass = "close-flush"
			case k == W:
				kclass = "last"
			case k > 1:
				kclass = "mid"
			}
			if kclass == "mid" || kclass == "close-flush" || W >= 3 {
				o.Units = append(o.Units, fmt.Sprintf("%s/%s/%s/%s", c.Format, c.Via, kclass, mode))
			}
			if r.writeErr == nil && r.closeErr == nil {
				phase := "during-write"
				if r.s.failedInClose {
					phase = "during-close"
				}
				sig := fmt.Sprintf("C18/%s/%s/%s/unreported", c.Format, c.Via, phase)
				if vt.IsKnown(sig) {
					o.Known = append(o.Known, sig)
					continue
				}
				o.Fail = vt.Failf(sig, "format=%s via=%s: sink write %d of %d failed (%s, %s) but every Write and Close returned nil (values=%d)",
					c.Format, c.Via, k, W, mode, phase, len(c.Seq.Vals))
				return o
			}
		}
	}
	return o
}

var prop = &vt.Prop[Case]{
	Name: "TestSinkFaults",
	Rule: "case = (format in {zng,zson,zjson,json,csv,tsv,zeek,table,text,vng}, via anyio.NewWriter or emitter.NewFileFromURI (bufwriter), writer options, generated value sequence); " +
		"for EVERY sink write position k=1..W of the fault-free run and every mode in {oneshot error, sticky error, short write+ErrShortWrite} the run is repeated and some Write or Close must return an error; " +
		"fault-free output must be readable with the same value count (zng: identical values). " +
		"Outputs of more than 300 sink writes (thorough tier only) are injected at their first 100, last 100 and 100 evenly spaced writes. A unit (format,via,k-class,mode) is non-trivial when k is an internal (mid) write, a flush inside Close, or the output spans >=3 sink writes; distinct = distinct (case digest, unit).",
	Gen: genCase,
	Run: runCase,
}

func init() { prop.Register() }

func TestSinkFaults(t *testing.T) { prop.Check(t) }
func TestReplay(t *testing.T)     { vt.TestReplay(t) }
