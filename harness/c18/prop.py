PROP = dict(
        pkg="c18", level="fault_enumeration",
        rule="C18: every sink-write fault position of every generated (format, options, sequence) case",
        assumptions=["sink faults are modelled by an io.WriteCloser whose k-th Write returns an error (or a short count with io.ErrShortWrite); Close of the sink itself never fails"],
        level_text="Fault enumeration: for every generated (format, writer options, value sequence) case, every sink write position and every failure mode is executed and the error-reporting oracle checked; the input space itself is sampled by rapid.",
        level_note="Trusted: the fault-injecting sink (harness code), the repo's readers for the fault-free readability check. The lake part injects failures into every storage write step of Branch.Load over the harness's in-memory engine. Not covered: arrows/parquet writers, failures of the sink's Close.",
        technique="property-based testing (rapid) with exhaustive fault-position enumeration per generated case",
        tests=[dict(name="TestSinkFaults", quick=(8, 120), thorough=(16, 100), timeout=dict(quick=1500, thorough=3400)),
               dict(name="TestLakeLoadFaults", quick=(4, 10), thorough=(8, 40))],
)
