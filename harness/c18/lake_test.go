package c18

import (
	"context"
	"fmt"
	"strings"
	"testing"

	zed "github.com/brimdata/super"
	"pgregory.net/rapid"

	"verif/gen"
	"verif/lakeh"
	"verif/memstore"
	"verif/oracle"
	"verif/vt"
)

// LakeCase: a load into a pool whose storage fails at the k-th mutating step.
type LakeCase struct {
	File    bool      `json:"file_mode"`
	Thresh  int64     `json:"thresh"`
	Prior   int       `json:"prior_loads"`
	Batches []gen.Seq `json:"batches"`
}

func genLake(t *rapid.T) LakeCase {
	c := LakeCase{File: rapid.Bool().Draw(t, "file"), Thresh: rapid.SampledFrom([]int64{1, 30, 0}).Draw(t, "thresh"), Prior: rapid.IntRange(0, 2).Draw(t, "prior")}
	for i := 0; i < 2; i++ {
		var sb strings.Builder
		n := rapid.IntRange(1, 6).Draw(t, "n")
		for j := 0; j < n; j++ {
			fmt.Fprintf(&sb, "{k:%d,b:%d} ", rapid.IntRange(0, 9).Draw(t, "k"), i)
		}
		c.Batches = append(c.Batches, gen.SeqFromZSON(sb.String()))
	}
	return c
}

func runLake(c LakeCase) *vt.Outcome {
	o := &vt.Outcome{}
	ctx := context.Background()
	mode := memstore.Atomic
	if c.File {
		mode = memstore.File
	}
	o.Label("mode:" + mode.String())
	base := memstore.NewStore()
	setup, err := lakeh.Create(ctx, base, mode, nil)
	if err != nil {
		o.Fail = vt.Failf("C18/lake/setup", "%v", err)
		return o
	}
	pool, err := setup.CreatePool(ctx, lakeh.PoolSpec{Name: "p", Key: []string{"k"}, Thresh: c.Thresh})
	if err != nil {
		o.Fail = vt.Failf("C18/lake/setup", "%v", err)
		return o
	}
	for i := 0; i < c.Prior; i++ {
		if _, err := setup.Load(ctx, pool, "main", c.Batches[0].Zctx, c.Batches[0].Vals); err != nil {
			o.Fail = vt.Failf("C18/lake/setup", "%v", err)
			return o
		}
	}
	zctx := zed.NewContext()
	scan := func(st *memstore.Store) ([]zed.Value, error) {
		lk, err := lakeh.Open(ctx, st, mode, nil)
		if err != nil {
			return nil, err
		}
		vals, err := lk.Query(ctx, nil, "from p")
		return lakeh.Translate(zctx, vals), err
	}
	before, err := scan(base.Clone())
	if err != nil {
		o.Fail = vt.Failf("C18/lake/setup", "%v", err)
		return o
	}
	batch := c.Batches[1]
	writeStep := func(op *memstore.Op) bool {
		switch op.Kind {
		case "put-open", "put-write", "put-close", "putx", "putx-create", "putx-fill":
			return true
		}
		return false
	}
	load := func(st *memstore.Store, hook memstore.Hook) error {
		lk, err := lakeh.Open(ctx, st, mode, nil)
		if err != nil {
			return err
		}
		lk.Engine.Hook = hook
		_, err = lk.Load(ctx, pool, "main", batch.Zctx, batch.Vals)
		return err
	}
	// dry run: count the write steps of a fault-free load
	dry := base.Clone()
	counter := &memstore.Counter{}
	if err := load(dry, counter); err != nil {
		o.Fail = vt.Failf("C18/lake/faultfree-load-failed", "%v", err)
		return o
	}
	W := 0
	for _, op := range counter.Snapshot() {
		op := op
		if writeStep(&op) {
			W++
		}
	}
	after, err := scan(dry)
	if err != nil || oracle.SameMultiset(append(append([]zed.Value{}, before...), lakeh.Translate(zctx, batch.Vals)...), after) != "" {
		o.Fail = vt.Failf("C18/lake/faultfree-content", "fault-free load did not add exactly the batch (err=%v)", err)
		return o
	}
	o.Evals = 1
	for k := 1; k <= W; k++ {
		for _, sticky := range []bool{false, true} {
			st := base.Clone()
			f := &memstore.FailAt{K: k, Sticky: sticky, Match: writeStep}
			lerr := load(st, f)
			o.Evals++
			if f.Fired == 0 {
				continue
			}
			modeName := "oneshot"
			if sticky {
				modeName = "sticky"
			}
			fired := counter.Snapshot()
			cls := "?"
			n := 0
			for _, op := range fired {
				op := op
				if writeStep(&op) {
					n++
					if n == k {
						cls = op.Class + "/" + op.Kind
					}
				}
			}
			o.Units = append(o.Units, fmt.Sprintf("%s/%s/%s", mode, cls, modeName))
			if lerr == nil {
				o.Fail = vt.Failf("C18/lake/"+cls+"/unreported", "mode=%s: storage write step %d of %d (%s, %s) failed during Load but Load returned nil", mode, k, W, cls, modeName)
				return o
			}
			got, err := scan(st)
			if err != nil && mode == memstore.File {
				// file-like storage: a failed write leaves a truncated HEAD/entry/snapshot behind; that is the torn-file
				// class C17 reports (the failure itself WAS reported, which is all this property asks)
				o.Label("unreadable-after-reported-failure(file mode, C17 class)")
				continue
			}
			if err != nil {
				o.Fail = vt.Failf("C18/lake/"+cls+"/branch-unreadable-after-failed-load", "mode=%s: after a load that failed at write step %d (%s, %s) the branch cannot be read: %v", mode, k, cls, modeName, err)
				return o
			}
			if d := oracle.SameMultiset(before, got); d != "" {
				// a failed Load must not have created a commit
				sig := "C18/lake/" + cls + "/failed-load-left-a-commit"
				if vt.IsKnown(sig) {
					o.Known = append(o.Known, sig)
					continue
				}
				o.Fail = vt.Failf(sig, "mode=%s: Load failed at write step %d (%s, %s) and reported %v, yet the branch content changed: %s", mode, k, cls, modeName, lerr, d)
				return o
			}
		}
	}
	return o
}

var lakeProp = &vt.Prop[LakeCase]{
	Name: "TestLakeLoadFaults",
	Rule: "case = storage mode (atomic/file-like) x pool threshold {1,30,default} (one load -> several data objects) x 0..2 prior loads x a batch; the load is repeated once per storage WRITE step k=1..W (data object, seek index, commit object, journal entry, HEAD; put open / each write / close / put-if-absent) with that step failing once (oneshot) or from then on (sticky, so clean-up fails too): Load must return an error, the branch must stay readable and must not contain a new commit. " +
		"A unit (mode, path class/step kind, failure mode) is counted once per case.",
	Gen: genLake,
	Run: runLake,
}

func init() { lakeProp.Register() }

func TestLakeLoadFaults(t *testing.T) { lakeProp.Check(t) }
