package c14

import (
	"context"
	"fmt"
	"sort"
	"strings"
	"testing"

	zed "github.com/brimdata/super"
	"github.com/brimdata/super/compiler"
	"github.com/brimdata/super/lake/data"
	"github.com/brimdata/super/order"
	"github.com/brimdata/super/pkg/field"
	"github.com/brimdata/super/runtime/sam/expr"
	"github.com/brimdata/super/zcode"
	"github.com/segmentio/ksuid"
	"pgregory.net/rapid"

	"verif/gen"
	"verif/lakeh"
	"verif/memstore"
	"verif/oracle"
	"verif/qh"
	"verif/vt"
)

func TestMain(m *testing.M) { vt.Main(m) }

type Op struct {
	Kind    string `json:"kind"` // load delete deletewhere compact addvec delvec vacuum
	Batch   int    `json:"batch,omitempty"`
	Pick    []int  `json:"pick,omitempty"`    // ordinals into the live object list (mod len)
	Stale   bool   `json:"stale,omitempty"`   // delete: include an id that is no longer live
	Dup     bool   `json:"dup,omitempty"`     // delete: list one id twice
	Pred    string `json:"pred,omitempty"`    // deletewhere
	Vectors bool   `json:"vectors,omitempty"` // compact: also write vectors
}

type Case struct {
	Pool    lakeh.PoolSpec `json:"pool"`
	File    bool           `json:"file_mode"`
	Batches []gen.Seq      `json:"batches"`
	Ops     []Op           `json:"ops"`
}

// ---------- generation

var keyInts = []int64{0, 1, 2, 3, 4, 5, 6, 7, 10, -1, 100, 1 << 40}

func genKey(t *rapid.T, b *zcode.Builder) zed.Type {
	switch rapid.IntRange(0, 19).Draw(t, "keykind") {
	case 0:
		b.Append(nil)
		return zed.TypeInt64
	case 1:
		b.Append(zed.EncodeString(rapid.SampledFrom([]string{"a", "b", "", "zz"}).Draw(t, "skey")))
		return zed.TypeString
	case 2:
		b.Append(zed.EncodeFloat64(rapid.SampledFrom([]float64{0.5, 2, 2.5, -1}).Draw(t, "fkey")))
		return zed.TypeFloat64
	case 3:
		b.Append(zed.EncodeUint(uint64(rapid.IntRange(0, 5).Draw(t, "ukey"))))
		return zed.TypeUint64
	default:
		b.Append(zed.EncodeInt(rapid.SampledFrom(keyInts).Draw(t, "ikey")))
		return zed.TypeInt64
	}
}

// genValue builds one record for a pool keyed on keyPath (or a non-record value).
func genValue(t *rapid.T, zctx *zed.Context, keyPath []string) zed.Value {
	var b zcode.Builder
	kind := rapid.IntRange(0, 19).Draw(t, "valkind")
	if kind == 0 {
		// non-record value (its key is missing)
		switch rapid.IntRange(0, 2).Draw(t, "nonrec") {
		case 0:
			return zed.NewInt64(int64(rapid.IntRange(0, 5).Draw(t, "n")))
		case 1:
			return zed.NewString(rapid.SampledFrom([]string{"x", "y", ""}).Draw(t, "s"))
		default:
			return zed.Null
		}
	}
	b.BeginContainer()
	var fields []zed.Field
	missingKey := kind == 1
	if !missingKey {
		if len(keyPath) == 2 {
			b.BeginContainer()
			kt := genKey(t, &b)
			b.EndContainer()
			inner := zctx.MustLookupTypeRecord([]zed.Field{zed.NewField(keyPath[1], kt)})
			fields = append(fields, zed.NewField(keyPath[0], inner))
		} else {
			kt := genKey(t, &b)
			fields = append(fields, zed.NewField(keyPath[0], kt))
		}
	}
	// payload: v (int or string) or w (string) -- "twins": same bytes, different type
	payload := rapid.SampledFrom([]string{"a", "b", "c"}).Draw(t, "payload")
	switch rapid.IntRange(0, 5).Draw(t, "pkind") {
	case 0:
		b.Append(zed.EncodeString(payload))
		fields = append(fields, zed.NewField("w", zed.TypeString))
	case 1:
		b.Append(zed.EncodeInt(int64(rapid.IntRange(0, 3).Draw(t, "vint"))))
		fields = append(fields, zed.NewField("v", zed.TypeInt64))
	case 2:
		b.Append(nil)
		fields = append(fields, zed.NewField("v", zed.TypeString))
	default:
		b.Append(zed.EncodeString(payload))
		fields = append(fields, zed.NewField("v", zed.TypeString))
	}
	b.EndContainer()
	typ := zctx.MustLookupTypeRecord(fields)
	return zed.NewValue(typ, b.Bytes().Body())
}

var predTemplates = []string{
	"%s < %d", "%s <= %d", "%s > %d", "%s >= %d", "%s == %d", "%s != %d", "%d <= %s", "%d > %s",
}

func genPred(t *rapid.T, key string) string {
	c := rapid.SampledFrom([]int{0, 1, 2, 3, 5, 7}).Draw(t, "c")
	switch rapid.IntRange(0, 9).Draw(t, "predkind") {
	case 0:
		return `v == "a"`
	case 1:
		return `v == "a" or w == "b"`
	case 2:
		return "v+1 == 3"
	case 3:
		return fmt.Sprintf("%s >= %d and v != \"b\"", key, c)
	case 4:
		return fmt.Sprintf("not (%s < %d)", key, c)
	case 5:
		return `has(w)`
	case 6:
		return fmt.Sprintf("%s == null", key)
	default:
		tmpl := rapid.SampledFrom(predTemplates).Draw(t, "tmpl")
		if strings.HasPrefix(tmpl, "%d") {
			return fmt.Sprintf(tmpl, c, key)
		}
		return fmt.Sprintf(tmpl, key, c)
	}
}

func genCase(t *rapid.T) Case {
	keyPath := rapid.SampledFrom([][]string{{"k"}, {"k"}, {"k"}, {"k", "s"}, {"this"}}).Draw(t, "key")
	c := Case{
		Pool: lakeh.PoolSpec{
			Name:   "p",
			Key:    keyPath,
			Desc:   rapid.Bool().Draw(t, "desc"),
			Thresh: rapid.SampledFrom([]int64{1, 20, 60, 200, 0}).Draw(t, "thresh"),
			Stride: rapid.SampledFrom([]int{1, 8, 64, 0}).Draw(t, "stride"),
		},
		File: rapid.Bool().Draw(t, "filemode"),
	}
	maxBatch, maxOps := 10, 12
	if vt.Thorough() {
		maxBatch, maxOps = 40, 40
	}
	nb := rapid.IntRange(1, 4).Draw(t, "nbatches")
	for i := 0; i < nb; i++ {
		zctx := zed.NewContext()
		s := gen.Seq{Zctx: zctx}
		n := rapid.IntRange(1, maxBatch).Draw(t, "blen")
		for j := 0; j < n; j++ {
			s.Vals = append(s.Vals, genValue(t, zctx, keyPath))
		}
		c.Batches = append(c.Batches, s)
	}
	keyName := strings.Join(keyPath, ".")
	nops := rapid.IntRange(2, maxOps).Draw(t, "nops")
	for i := 0; i < nops; i++ {
		var op Op
		// first op is always a load so that something exists
		k := 0
		if i > 0 {
			k = rapid.IntRange(0, 13).Draw(t, "opkind")
		}
		switch {
		case k <= 4:
			op = Op{Kind: "load", Batch: rapid.IntRange(0, nb-1).Draw(t, "batch")}
		case k <= 6:
			op = Op{Kind: "delete", Pick: rapid.SliceOfN(rapid.IntRange(0, 7), 1, 3).Draw(t, "pick"),
				Stale: rapid.IntRange(0, 7).Draw(t, "stale") == 0, Dup: rapid.IntRange(0, 9).Draw(t, "dup") == 0}
		case k <= 8:
			op = Op{Kind: "deletewhere", Pred: genPred(t, keyName)}
		case k <= 10:
			op = Op{Kind: "compact", Pick: rapid.SliceOfN(rapid.IntRange(0, 7), 2, 4).Draw(t, "pick"), Vectors: rapid.Bool().Draw(t, "vec")}
		case k == 11:
			op = Op{Kind: "addvec", Pick: rapid.SliceOfN(rapid.IntRange(0, 7), 1, 2).Draw(t, "pick")}
		case k == 12:
			op = Op{Kind: "delvec", Pick: rapid.SliceOfN(rapid.IntRange(0, 7), 1, 2).Draw(t, "pick")}
		default:
			op = Op{Kind: "vacuum"}
		}
		c.Ops = append(c.Ops, op)
	}
	return c
}

// ---------- model and execution

type mobj struct {
	id   ksuid.KSUID
	vals []zed.Value
}

type runner struct {
	c                 Case
	ctx               context.Context
	store             *memstore.Store
	mode              memstore.Mode
	lk                *lakeh.Lake
	pool              ksuid.KSUID
	zctx              *zed.Context
	live              []mobj // model: live objects in creation order
	dead              []ksuid.KSUID
	keyCmp            *expr.Comparator
	o                 *vt.Outcome
	maxObjs           int
	sawDeleteThenMore bool
	sawDelete         bool
}

func (r *runner) modelVals() []zed.Value {
	var out []zed.Value
	for _, o := range r.live {
		out = append(out, o.vals...)
	}
	return out
}

func (r *runner) pickIDs(pick []int) []ksuid.KSUID {
	if len(r.live) == 0 {
		return nil
	}
	seen := map[int]bool{}
	var ids []ksuid.KSUID
	for _, p := range pick {
		i := p % len(r.live)
		if seen[i] {
			continue
		}
		seen[i] = true
		ids = append(ids, r.live[i].id)
	}
	return ids
}

func (r *runner) removeLive(ids []ksuid.KSUID) {
	rm := map[ksuid.KSUID]bool{}
	for _, id := range ids {
		rm[id] = true
	}
	var keep []mobj
	for _, o := range r.live {
		if rm[o.id] {
			r.dead = append(r.dead, o.id)
		} else {
			keep = append(keep, o)
		}
	}
	r.live = keep
}

func fail(sig, format string, args ...any) *vt.Failure { return vt.Failf(sig, format, args...) }

// syncNew finds objects in the tip snapshot that the model does not know,
// reads their contents and returns them.
func (r *runner) snapshotObjects() ([]*data.Object, map[ksuid.KSUID]bool, error) {
	tip, err := r.lk.Tip(r.ctx, r.pool, "main")
	if err != nil {
		return nil, nil, err
	}
	return r.lk.Objects(r.ctx, r.pool, tip)
}

func (r *runner) newObjects() ([]mobj, *vt.Failure) {
	objs, _, err := r.snapshotObjects()
	if err != nil {
		return nil, fail("C14/snapshot-unreadable", "cannot list objects at tip: %v", err)
	}
	known := map[ksuid.KSUID]bool{}
	for _, o := range r.live {
		known[o.id] = true
	}
	var fresh []mobj
	for _, o := range objs {
		if known[o.ID] {
			continue
		}
		vals, err := r.lk.ReadObject(r.ctx, r.pool, o, r.zctx)
		if err != nil {
			return nil, fail("C14/object-unreadable", "object %s listed at tip cannot be read: %v", o.ID, err)
		}
		fresh = append(fresh, mobj{id: o.ID, vals: vals})
	}
	sort.Slice(fresh, func(i, j int) bool { return fresh[i].id.String() < fresh[j].id.String() })
	return fresh, nil
}

func flatten(objs []mobj) []zed.Value {
	var out []zed.Value
	for _, o := range objs {
		out = append(out, o.vals...)
	}
	return out
}

// translate copies vals into zctx (types canonical there).
func translate(zctx *zed.Context, vals []zed.Value) []zed.Value {
	out := make([]zed.Value, len(vals))
	for i, v := range vals {
		typ, err := zctx.TranslateType(v.Type())
		if err != nil {
			panic(err)
		}
		out[i] = zed.NewValue(typ, v.Bytes()).Copy()
	}
	return out
}

func (r *runner) step(i int, op Op) *vt.Failure {
	switch op.Kind {
	case "load":
		vals := translate(r.zctx, r.c.Batches[op.Batch%len(r.c.Batches)].Vals)
		_, err := r.lk.Load(r.ctx, r.pool, "main", r.zctx, vals)
		if err != nil {
			return fail("C14/load-failed", "step %d: load of %d values failed: %v", i, len(vals), err)
		}
		fresh, f := r.newObjects()
		if f != nil {
			return f
		}
		if d := oracle.SameMultiset(vals, flatten(fresh)); d != "" {
			return fail("C14/load-objects-differ", "step %d: objects created by load do not hold the loaded values: %s", i, d)
		}
		r.live = append(r.live, fresh...)
		if len(fresh) >= 2 {
			r.o.Label("multi-object-load")
		}
		if r.sawDelete {
			r.sawDeleteThenMore = true
		}
	case "delete":
		ids := r.pickIDs(op.Pick)
		if len(ids) == 0 {
			return nil
		}
		expectOK := true
		if op.Stale && len(r.dead) > 0 {
			ids = append(ids, r.dead[0])
			expectOK = false
			r.o.Label("delete-stale-id")
		}
		if op.Dup {
			ids = append(ids, ids[0])
			r.o.Label("delete-duplicate-id")
		}
		_, err := r.lk.API.Delete(r.ctx, r.pool, "main", ids, lakeh.Msg)
		if !expectOK {
			if err == nil {
				return fail("C14/delete-stale-accepted", "step %d: delete of an id that is not live was acknowledged", i)
			}
			return nil // model unchanged; invariants below check the lake is unchanged too
		}
		if err != nil {
			if op.Dup {
				// Rejecting a duplicate id is legitimate; nothing must have changed.
				r.o.Label("delete-duplicate-rejected")
				return nil
			}
			return fail("C14/delete-failed", "step %d: delete of live objects failed: %v", i, err)
		}
		r.removeLive(ids)
		r.sawDelete = true
	case "deletewhere":
		before := r.modelVals()
		matched, perr := qh.Run(r.zctx, before, "where "+op.Pred)
		_, err := r.lk.API.DeleteWhere(r.ctx, r.pool, "main", op.Pred, lakeh.Msg)
		if perr != nil {
			// the predicate does not compile/run for `where`; the lake must refuse it too or at least change nothing
			if err == nil {
				// fallthrough to content comparison with unchanged model
			}
			r.o.Label("deletewhere-pred-error")
			return r.resync(i, before, nil, op)
		}
		if err != nil {
			// "empty transaction" when nothing matched is fine; any failure must leave content unchanged
			r.o.Label("deletewhere-error")
			if len(matched) > 0 && !strings.Contains(err.Error(), "empty") {
				return fail("C14/deletewhere-failed", "step %d: delete where %q failed although %d values match: %v", i, op.Pred, len(matched), err)
			}
			return r.resync(i, before, nil, op)
		}
		r.sawDelete = true
		return r.resync(i, before, matched, op)
	case "compact":
		ids := r.pickIDs(op.Pick)
		if len(ids) < 2 {
			return nil
		}
		before := r.modelVals()
		_, err := r.lk.API.Compact(r.ctx, r.pool, "main", ids, op.Vectors, lakeh.Msg)
		if err != nil {
			return fail("C14/compact-failed", "step %d: compact of live objects failed: %v", i, err)
		}
		var old []zed.Value
		for _, o := range r.live {
			for _, id := range ids {
				if o.id == id {
					old = append(old, o.vals...)
				}
			}
		}
		r.removeLive(ids)
		fresh, f := r.newObjects()
		if f != nil {
			return f
		}
		if d := oracle.SameMultiset(old, flatten(fresh)); d != "" {
			return fail("C14/compact-objects-differ", "step %d: compaction output does not hold exactly the source values: %s", i, d)
		}
		r.live = append(r.live, fresh...)
		_ = before
		if r.sawDelete {
			r.sawDeleteThenMore = true
		}
		r.o.Label("compact")
	case "addvec", "delvec":
		ids := r.pickIDs(op.Pick)
		if len(ids) == 0 {
			return nil
		}
		var err error
		if op.Kind == "addvec" {
			_, err = r.lk.API.AddVectors(r.ctx, "p", "main", ids, lakeh.Msg)
		} else {
			_, err = r.lk.API.DeleteVectors(r.ctx, "p", "main", ids, lakeh.Msg)
		}
		if err != nil {
			r.o.Label(op.Kind + "-error")
		} else {
			r.o.Label(op.Kind)
		}
	case "vacuum":
		if _, err := r.lk.API.Vacuum(r.ctx, "p", "main", false); err != nil {
			return fail("C14/vacuum-failed", "step %d: vacuum failed: %v", i, err)
		}
		r.o.Label("vacuum")
	}
	return nil
}

// resync rebuilds the model's object list after a delete-where from the lake's
// own object list and checks that the content is before - matched.
func (r *runner) resync(i int, before, matched []zed.Value, op Op) *vt.Failure {
	objs, _, err := r.snapshotObjects()
	if err != nil {
		return fail("C14/snapshot-unreadable", "step %d: cannot list objects at tip: %v", i, err)
	}
	var now []mobj
	for _, o := range objs {
		vals, err := r.lk.ReadObject(r.ctx, r.pool, o, r.zctx)
		if err != nil {
			return fail("C14/object-unreadable", "step %d: object %s listed at tip cannot be read: %v", i, o.ID, err)
		}
		now = append(now, mobj{id: o.ID, vals: vals})
	}
	sort.Slice(now, func(a, b int) bool { return now[a].id.String() < now[b].id.String() })
	got := flatten(now)
	want := subtract(before, matched)
	if d := oracle.SameMultiset(want, got); d != "" {
		// known class: rows on which the predicate evaluates to a non-missing error are deleted as well
		// rows on which the predicate itself evaluates to an error other than error("missing")
		var errRows []zed.Value
		pvals, qerr := qh.Run(r.zctx, before, "yield "+op.Pred)
		if qerr == nil && len(pvals) == len(before) {
			for n, pv := range pvals {
				if pv.IsError() && !pv.IsMissing() {
					errRows = append(errRows, before[n])
				}
			}
		}
		if len(errRows) > 0 {
			if oracle.SameMultiset(subtract(want, errRows), got) == "" {
				const sig = "C14/delete-where/error-predicate-rows-deleted"
				if vt.IsKnown(sig) {
					r.o.Known = append(r.o.Known, sig)
					goto accept
				}
				return fail(sig, "step %d: delete where %q also removed %d value(s) on which the predicate evaluates to an error (e.g. %s); `where %s` does not select them",
					i, op.Pred, len(errRows), oracle.Show(errRows[0]), op.Pred)
			}
		}
		// known class (shared root cause with C16): a typed null key satisfies `k < c` / `k <= c` under the
		// evaluator (null(int64) < 7 is true) but the nulls-max key-range pruner skips the object or seek range,
		// so such rows survive a delete-where although `where` selects them.
		if extra := subtract(got, want); len(extra) > 0 && len(subtract(want, got)) == 0 {
			allNullKey := true
			keyOf := expr.NewDottedExpr(r.zctx, field.Path(r.c.Pool.Key))
			ectx := expr.NewContext()
			for _, v := range extra {
				k := keyOf.Eval(ectx, v)
				if !k.IsNull() || k.Type() == zed.TypeNull {
					allNullKey = false
				}
			}
			if allNullKey {
				const sig = "C14/delete-where/typed-null-key-pruned"
				if vt.IsKnown(sig) {
					r.o.Known = append(r.o.Known, sig)
					want = got
					goto accept
				}
				return fail(sig, "step %d: delete where %q kept %d value(s) with a typed null pool key (e.g. %s) although `where %s` selects them", i, op.Pred, len(extra), oracle.Show(extra[0]), op.Pred)
			}
		}
		return fail("C14/delete-where-content", "step %d: after delete where %q the pool content is not (before - matching values): %s", i, op.Pred, d)
	}
accept:
	// keep ids of surviving objects stable in the model; others are new/dead
	old := map[ksuid.KSUID]bool{}
	for _, o := range r.live {
		old[o.id] = true
	}
	still := map[ksuid.KSUID]bool{}
	for _, o := range now {
		still[o.id] = true
	}
	for _, o := range r.live {
		if !still[o.id] {
			r.dead = append(r.dead, o.id)
		}
	}
	r.live = now
	return nil
}

func subtract(a, b []zed.Value) []zed.Value {
	cnt := map[string]int{}
	for _, v := range b {
		cnt[oracle.Key(v)]++
	}
	var out []zed.Value
	for _, v := range a {
		k := oracle.Key(v)
		if cnt[k] > 0 {
			cnt[k]--
			continue
		}
		out = append(out, v)
	}
	return out
}

// scan returns the unfiltered scan of the branch with values re-typed in
// r.zctx (the repo's evaluators cache field positions by type id, which is
// only meaningful within one context).
func (r *runner) scan(lk *lakeh.Lake) ([]zed.Value, error) {
	vals, err := lk.Query(r.ctx, nil, "from p")
	if err != nil {
		return nil, err
	}
	return translate(r.zctx, vals), nil
}

// scanSequential scans with compiler.Parallelism forced to 1 (a package-level knob; one case runs at a time).
func (r *runner) scanSequential(lk *lakeh.Lake) ([]zed.Value, error) {
	old := compiler.Parallelism
	compiler.Parallelism = 1
	defer func() { compiler.Parallelism = old }()
	return r.scan(lk)
}

// canonTies sorts, inside every maximal run of adjacent values that have an
// equal pool key, the values by their full identity.  Two scans that differ
// only inside such runs differ only in the order of ties.
func (r *runner) canonTies(vals []zed.Value) []zed.Value {
	out := append([]zed.Value(nil), vals...)
	i := 0
	for i < len(out) {
		j := i + 1
		for j < len(out) && r.keyCmp.Compare(out[i], out[j]) == 0 {
			j++
		}
		if j-i > 1 {
			run := out[i:j]
			sort.SliceStable(run, func(a, b int) bool { return oracle.Key(run[a]) < oracle.Key(run[b]) })
		}
		i = j
	}
	return out
}

// Under the default (parallel) plan the scatter legs pick up partitions dynamically and the merge breaks ties on the
// pool key by leg, so the order of values with EQUAL pool keys changes from scan to scan.  That is an open finding;
// the sequential plan (parallelism 1) is deterministic since the object listing was fixed and is checked strictly.
const sigTie = "C14/tie-order/parallel-scan-equal-keys"

func (r *runner) sameScan(i int, what string, a, b []zed.Value, parallel bool) *vt.Failure {
	d := oracle.Same(a, b)
	if d == "" {
		return nil
	}
	if parallel && oracle.Same(r.canonTies(a), r.canonTies(b)) == "" {
		r.o.Label("parallel-tie-reordered")
		if vt.IsKnown(sigTie) {
			r.o.Known = append(r.o.Known, sigTie)
			return nil
		}
		return fail(sigTie, "step %d: %s (default parallel plan) differ only in the relative order of values with equal pool keys: %s", i, what, d)
	}
	if parallel {
		return fail("C14/scan-nondeterministic", "step %d: %s differ: %s", i, what, d)
	}
	return fail("C14/scan-nondeterministic/sequential-plan", "step %d: %s at parallelism 1 differ: %s", i, what, d)
}

// invariants checked after every step
func (r *runner) invariants(i int, op Op) *vt.Failure {
	want := r.modelVals()
	got, err := r.scan(r.lk)
	if err != nil {
		return fail("C14/scan-failed", "step %d (%s): scan of the branch failed: %v", i, op.Kind, err)
	}
	if d := oracle.SameMultiset(want, got); d != "" {
		return fail("C14/content-differs/"+op.Kind, "step %d (%s): scan differs from model: %s", i, op.Kind, d)
	}
	// order
	for j := 1; j < len(got); j++ {
		c := r.keyCmp.Compare(got[j-1], got[j])
		if c > 0 {
			return fail("C14/scan-order", "step %d (%s): scan not in pool-key order (%s %v) at %d: %s then %s",
				i, op.Kind, strings.Join(r.c.Pool.Key, "."), r.c.Pool.Order(), j, oracle.Show(got[j-1]), oracle.Show(got[j]))
		}
	}
	// determinism: same handle again, and a fresh handle
	again, err := r.scan(r.lk)
	if err != nil {
		return fail("C14/scan-failed", "step %d: second scan failed: %v", i, err)
	}
	if f := r.sameScan(i, "two consecutive scans", got, again, true); f != nil {
		return f
	}
	// the sequential plan must order ties identically every time, on this handle and on a fresh one
	seq1, err := r.scanSequential(r.lk)
	if err != nil {
		return fail("C14/scan-failed", "step %d: sequential scan failed: %v", i, err)
	}
	seq2, err := r.scanSequential(r.lk)
	if err != nil {
		return fail("C14/scan-failed", "step %d: sequential scan failed: %v", i, err)
	}
	if f := r.sameScan(i, "two consecutive scans", seq1, seq2, false); f != nil {
		return f
	}
	for j := 1; j < len(seq1); j++ {
		if r.keyCmp.Compare(seq1[j-1], seq1[j]) > 0 {
			return fail("C14/scan-order/sequential-plan", "step %d (%s): scan at parallelism 1 not in pool-key order (%s %v) at %d: %s then %s",
				i, op.Kind, strings.Join(r.c.Pool.Key, "."), r.c.Pool.Order(), j, oracle.Show(seq1[j-1]), oracle.Show(seq1[j]))
		}
	}
	if d := oracle.SameMultiset(got, seq1); d != "" {
		return fail("C14/parallel-vs-sequential-content", "step %d: parallel and sequential scans differ in content: %s", i, d)
	}
	cold, err := lakeh.Open(r.ctx, r.store, r.mode, nil)
	if err != nil {
		return fail("C14/reopen-failed", "step %d: cannot open a fresh handle: %v", i, err)
	}
	coldScan, err := r.scan(cold)
	if err != nil {
		return fail("C14/scan-failed", "step %d: scan through a fresh handle failed: %v", i, err)
	}
	if f := r.sameScan(i, "a scan and a scan through a fresh handle", got, coldScan, true); f != nil {
		return f
	}
	coldSeq, err := r.scanSequential(cold)
	if err != nil {
		return fail("C14/scan-failed", "step %d: sequential scan through a fresh handle failed: %v", i, err)
	}
	if f := r.sameScan(i, "a scan and a scan through a fresh handle", seq1, coldSeq, false); f != nil {
		return f
	}
	// metadata
	objs, _, err := r.snapshotObjects()
	if err != nil {
		return fail("C14/snapshot-unreadable", "step %d: %v", i, err)
	}
	if len(objs) != len(r.live) {
		return fail("C14/object-set", "step %d (%s): lake lists %d objects, model has %d", i, op.Kind, len(objs), len(r.live))
	}
	if len(objs) > r.maxObjs {
		r.maxObjs = len(objs)
	}
	byID := map[ksuid.KSUID][]zed.Value{}
	for _, o := range r.live {
		byID[o.id] = o.vals
	}
	asc := expr.NewComparator(true, expr.NewSortEvaluator(expr.NewDottedExpr(r.zctx, field.Path(r.c.Pool.Key)), order.Asc)).WithMissingAsNull()
	keyOf := expr.NewDottedExpr(r.zctx, field.Path(r.c.Pool.Key))
	ectx := expr.NewContext()
	key := func(v zed.Value) zed.Value {
		k := keyOf.Eval(ectx, v)
		if k.IsMissing() {
			return zed.Null
		}
		return k.Copy()
	}
	valCmp := expr.NewValueCompareFn(order.Asc, true)
	for _, o := range objs {
		vals, ok := byID[o.ID]
		if !ok {
			return fail("C14/object-set", "step %d: lake lists object %s unknown to the model", i, o.ID)
		}
		if int(o.Count) != len(vals) {
			return fail("C14/meta-count", "step %d: object metadata count=%d but the object holds %d values", i, o.Count, len(vals))
		}
		if len(vals) == 0 {
			continue
		}
		lo, hi := vals[0], vals[0]
		for _, v := range vals[1:] {
			if asc.Compare(v, lo) < 0 {
				lo = v
			}
			if asc.Compare(v, hi) > 0 {
				hi = v
			}
		}
		if valCmp(o.Min, key(lo)) != 0 || valCmp(o.Max, key(hi)) != 0 {
			return fail("C14/meta-range", "step %d: object metadata min=%s max=%s but actual key range is %s..%s",
				i, oracle.Show(o.Min), oracle.Show(o.Max), oracle.Show(key(lo)), oracle.Show(key(hi)))
		}
		// values inside an object are in pool order
		for j := 1; j < len(vals); j++ {
			if r.keyCmp.Compare(vals[j-1], vals[j]) > 0 {
				return fail("C14/object-order", "step %d: values inside object not in pool-key order at %d", i, j)
			}
		}
		// seek index
		entries, err := r.lk.SeekIndex(r.ctx, r.pool, o)
		if err != nil {
			return fail("C14/seek-unreadable", "step %d: seek index of %s unreadable: %v", i, o.ID, err)
		}
		if len(entries) >= 3 {
			r.o.Label("seek-entries>=3")
		}
		var valOff, off uint64
		for n, e := range entries {
			if e.ValOff != valOff || e.Offset != off {
				return fail("C14/seek-contiguity", "step %d: seek entry %d starts at val %d / byte %d, expected %d / %d", i, n, e.ValOff, e.Offset, valOff, off)
			}
			if e.ValOff+e.ValCnt > uint64(len(vals)) || e.ValCnt == 0 {
				return fail("C14/seek-count", "step %d: seek entry %d covers values [%d,%d) of %d", i, n, e.ValOff, e.ValOff+e.ValCnt, len(vals))
			}
			seg := vals[e.ValOff : e.ValOff+e.ValCnt]
			slo, shi := seg[0], seg[0]
			for _, v := range seg[1:] {
				if asc.Compare(v, slo) < 0 {
					slo = v
				}
				if asc.Compare(v, shi) > 0 {
					shi = v
				}
			}
			if valCmp(e.Min, key(slo)) != 0 || valCmp(e.Max, key(shi)) != 0 {
				return fail("C14/seek-range", "step %d: seek entry %d min=%s max=%s but its values span %s..%s",
					i, n, oracle.Show(e.Min), oracle.Show(e.Max), oracle.Show(key(slo)), oracle.Show(key(shi)))
			}
			valOff += e.ValCnt
			off += e.Length
		}
		if len(entries) > 0 && (valOff != uint64(len(vals)) || int64(off) != o.Size) {
			return fail("C14/seek-coverage", "step %d: seek index covers %d values / %d bytes, object has %d values / %d bytes", i, valOff, off, len(vals), o.Size)
		}
	}
	return nil
}

func runCase(c Case) *vt.Outcome {
	o := &vt.Outcome{}
	ctx := context.Background()
	mode := memstore.Atomic
	if c.File {
		mode = memstore.File
	}
	store := memstore.NewStore()
	lk, err := lakeh.Create(ctx, store, mode, nil)
	if err != nil {
		o.Fail = fail("C14/create-lake", "%v", err)
		return o
	}
	pool, err := lk.CreatePool(ctx, c.Pool)
	if err != nil {
		o.Fail = fail("C14/create-pool", "%v", err)
		return o
	}
	zctx := zed.NewContext()
	ord := order.Asc
	if c.Pool.Desc {
		ord = order.Desc
	}
	r := &runner{c: c, ctx: ctx, store: store, mode: mode, lk: lk, pool: pool, zctx: zctx, o: o,
		keyCmp: expr.NewComparator(true, expr.NewSortEvaluator(expr.NewDottedExpr(zctx, field.Path(c.Pool.Key)), ord)).WithMissingAsNull()}
	o.Label("mode:"+mode.String(), "key:"+strings.Join(c.Pool.Key, "."))
	if c.Pool.Desc {
		o.Label("desc")
	}
	for i, op := range c.Ops {
		if f := r.step(i, op); f != nil {
			o.Fail = f
			return o
		}
		if f := r.invariants(i, op); f != nil {
			o.Fail = f
			return o
		}
	}
	o.Evals = len(c.Ops)
	if r.maxObjs >= 3 {
		o.Label("objects>=3")
	}
	o.NonTrivial = r.sawDeleteThenMore && r.maxObjs >= 3
	return o
}

var prop = &vt.Prop[Case]{
	Name: "TestPoolModel",
	Rule: "case = pool config (key k | k.s | this, asc/desc, threshold in {1,20,60,200,default}, seek stride in {1,8,64,default}, storage mode atomic/file) x 1..4 value batches (duplicate/mixed-type/null/missing keys, non-record values, same-bytes-different-type twins) x history of 2..12 (thorough 40) ops from {load, delete(ids, stale id, duplicate id), delete-where(pred), compact(ids, vectors?), vector add/del, vacuum}; " +
		"after EVERY step: scan multiset = model, scan in pool-key order, two scans and a cold-handle scan identical, per-object count/min/max truthful, values inside objects ordered, seek entries contiguous/covering/truthful. " +
		"evaluations count steps; a history is non-trivial when a delete or delete-where is followed by another load/compaction and the pool had >=3 objects at some point; distinct by case digest.",
	Gen: genCase,
	Run: runCase,
}

func init() { prop.Register() }

func TestPoolModel(t *testing.T) { prop.Check(t) }
func TestReplay(t *testing.T)    { vt.TestReplay(t) }
