PROP = dict(
    level="exploration",
    rule="C14: operation histories on one pool/branch checked against a multiset/object model after every step",
    level_text="Exploration by model-based (stateful) property testing: generated operation histories over generated pool configurations are executed against the real lake (in-memory storage engine, atomic and file-like semantics) and compared with a reference model after every step; sampled, not exhaustive.",
    level_note="Trusted: harness memstore engine (models pkg/storage/file.go and an idealised object store), the repo's key comparator (checked separately by C06) as ordering oracle, sam `where` evaluation of predicates for the model's delete-where. Not covered: manage-style compaction via the internal lakemanage package, multi-branch histories (C15).",
    technique="stateful property-based testing (rapid) against a reference model",
    assumptions=["storage is the harness's in-memory engine; the real file engine is not involved", "delete-where predicates are evaluated for the model by the repo's own `where` operator on in-memory values"],
    tests=[dict(name="TestPoolModel", quick=(8, 100), thorough=(16, 500))],
)
