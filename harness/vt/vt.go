// Package vt is the small test-support layer shared by every property
// package.  A property is a pair (Gen, Run): Gen draws a JSON-serialisable
// case from rapid, Run executes the case against /repo and returns an Outcome.
// vt takes care of statistics, known-finding matching, failure records (the
// replay files), crash breadcrumbs and deterministic replays.
package vt

import (
	"crypto/sha1"
	"encoding/hex"
	"encoding/json"
	"flag"
	"fmt"
	"os"
	"path/filepath"
	"runtime"
	"runtime/debug"
	"sort"
	"strings"
	"sync"
	"sync/atomic"
	"testing"
	"time"

	"pgregory.net/rapid"
)

// Failure describes an oracle violation.  Sig is a short canonical string
// naming the root-cause class (used to match known findings); Msg is free text.
type Failure struct {
	Sig string `json:"sig"`
	Msg string `json:"msg"`
}

func Failf(sig, format string, args ...any) *Failure {
	return &Failure{Sig: sig, Msg: fmt.Sprintf(format, args...)}
}

// Outcome is what running one case produced.
type Outcome struct {
	NonTrivial bool
	Labels     []string
	Skip       string   // non-empty: the case was legitimately not decidable (counted)
	Fail       *Failure // non-nil: the oracle was violated
	// Known lists known-finding signatures whose effect was observed and
	// neutralised while deciding this case (the case itself passed otherwise).
	Known []string
	// Sample, when non-nil, is used instead of the case itself in evidence samples.
	Sample any
	// Evals is the number of executions this case stands for (fault positions,
	// enumerated sub-cases); 0 means 1.  Units lists the distinct non-trivial
	// sub-cases by name (each counts once in distinct_nontrivial); when empty
	// and NonTrivial is set the case counts as one.
	Evals int
	Units []string
}

func (o *Outcome) Label(l ...string) { o.Labels = append(o.Labels, l...) }

type testStats struct {
	Evaluations int            `json:"evaluations"`
	NonTrivial  int            `json:"nontrivial"`
	Digests     []string       `json:"digests"`
	Labels      map[string]int `json:"labels"`
	Skipped     map[string]int `json:"skipped"`
	Known       map[string]int `json:"known"`
	KnownSample map[string]any `json:"known_sample"`
	Samples     []any          `json:"samples"`
	Extra       map[string]any `json:"extra,omitempty"`
	digestSet   map[string]struct{}
}

var (
	mu       sync.Mutex
	allStats = map[string]*testStats{}
	outDir   = os.Getenv("VERIF_OUT")
	known    = loadKnown()
)

// Tier returns "quick" or "thorough".
func Tier() string {
	if os.Getenv("VERIF_TIER") == "thorough" {
		return "thorough"
	}
	return "quick"
}

func Thorough() bool { return Tier() == "thorough" }

type knownEntry struct {
	Property  string `json:"property"`
	ID        string `json:"id"`
	Status    string `json:"status"`
	Signature string `json:"signature"`
	What      string `json:"what"`
}

func loadKnown() map[string]knownEntry {
	m := map[string]knownEntry{}
	path := os.Getenv("VERIF_KNOWN")
	if path == "" {
		path = "/verif/known_findings.json"
	}
	b, err := os.ReadFile(path)
	if err != nil {
		return m
	}
	var doc struct {
		Findings []knownEntry `json:"findings"`
	}
	if json.Unmarshal(b, &doc) != nil {
		return m
	}
	for _, e := range doc.Findings {
		if e.Status == "open" {
			m[e.Signature] = e
		}
	}
	return m
}

// IsKnown reports whether sig is listed as an open known finding.
func IsKnown(sig string) bool {
	_, ok := known[sig]
	return ok
}

func statsFor(name string) *testStats {
	s := allStats[name]
	if s == nil {
		s = &testStats{Labels: map[string]int{}, Skipped: map[string]int{}, Known: map[string]int{},
			KnownSample: map[string]any{}, digestSet: map[string]struct{}{}, Extra: map[string]any{}}
		allStats[name] = s
	}
	return s
}

// SetExtra records a free-form evidence item for a test (e.g. exhaustive: true).
func SetExtra(test, key string, v any) {
	mu.Lock()
	defer mu.Unlock()
	statsFor(test).Extra[key] = v
}

func digestOf(raw []byte) string {
	h := sha1.Sum(raw)
	return hex.EncodeToString(h[:8])
}

const maxSamples = 6

func record(name string, raw []byte, o *Outcome) {
	mu.Lock()
	defer mu.Unlock()
	s := statsFor(name)
	if o.Evals > 1 {
		s.Evaluations += o.Evals
	} else {
		s.Evaluations++
	}
	if o.Skip != "" {
		s.Skipped[o.Skip]++
		return
	}
	for _, l := range o.Labels {
		s.Labels[l]++
	}
	for _, k := range o.Known {
		s.Known[k]++
		if _, ok := s.KnownSample[k]; !ok {
			s.KnownSample[k] = json.RawMessage(raw)
		}
	}
	if o.NonTrivial || len(o.Units) > 0 {
		s.NonTrivial += max(1, len(o.Units))
		d := digestOf(raw)
		_, seen := s.digestSet[d]
		for _, u := range o.Units {
			s.digestSet[digestOf(append([]byte(d+"#"), u...))] = struct{}{}
		}
		if !seen {
			s.digestSet[d] = struct{}{}
			// keep first 3 and then every 2^k-th as a cheap deterministic reservoir
			n := len(s.digestSet)
			if len(s.Samples) < 3 || (n&(n-1) == 0 && len(s.Samples) < maxSamples) {
				var sample any = json.RawMessage(raw)
				if o.Sample != nil {
					sample = o.Sample
				}
				s.Samples = append(s.Samples, sample)
			}
		}
	}
}

// Main is called from TestMain of every property package.
func Main(m *testing.M) {
	flag.Parse()
	code := m.Run()
	writeStats()
	os.Exit(code)
}

func writeStats() {
	if outDir == "" {
		return
	}
	mu.Lock()
	defer mu.Unlock()
	for _, s := range allStats {
		s.Digests = s.Digests[:0]
		for d := range s.digestSet {
			s.Digests = append(s.Digests, d)
		}
		sort.Strings(s.Digests)
	}
	b, _ := json.Marshal(allStats)
	os.WriteFile(filepath.Join(outDir, "stats.json"), b, 0o644)
}

type failRecord struct {
	Test string          `json:"test"`
	Sig  string          `json:"sig"`
	Msg  string          `json:"msg"`
	Case json.RawMessage `json:"case"`
}

func writeFail(name string, f *Failure, raw []byte) {
	if outDir == "" {
		return
	}
	b, _ := json.MarshalIndent(failRecord{Test: name, Sig: f.Sig, Msg: f.Msg, Case: raw}, "", " ")
	os.WriteFile(filepath.Join(outDir, "fail-"+name+".json"), b, 0o644)
}

func breadcrumb(name string, raw []byte) {
	if outDir == "" || os.Getenv("VERIF_NO_BREADCRUMB") != "" {
		return
	}
	b, _ := json.Marshal(failRecord{Test: name, Sig: "crash", Msg: "process died while running this case", Case: raw})
	os.WriteFile(filepath.Join(outDir, "current-"+name+".json"), b, 0o644)
}

// Prop is one generated-case property.
type Prop[C any] struct {
	Name string // test name, e.g. "TestZNGRoundTrip"
	Rule string // evidence text: how cases are generated and what makes one non-trivial
	// CaseLimit is the no-progress watchdog for one case (default 120 s; cases
	// normally take milliseconds).  See watchdog.
	CaseLimit time.Duration
	Gen       func(t *rapid.T) C
	Run       func(c C) *Outcome
}

var registry = map[string]func(raw json.RawMessage) (*Outcome, error){}

// Register makes the property replayable by name.
func (p *Prop[C]) Register() {
	registry[p.Name] = func(raw json.RawMessage) (*Outcome, error) {
		var c C
		if err := json.Unmarshal(raw, &c); err != nil {
			return nil, err
		}
		return p.safeRun(c), nil
	}
}

func repoFrame(stack string) string {
	// first frame inside the code under test
	lines := strings.Split(stack, "\n")
	for _, l := range lines {
		l = strings.TrimSpace(l)
		if strings.HasPrefix(l, "github.com/brimdata/super") {
			if i := strings.LastIndex(l, "("); i > 0 {
				l = l[:i]
			}
			return strings.TrimPrefix(l, "github.com/brimdata/super")
		}
	}
	return "?"
}

func (p *Prop[C]) safeRun(c C) (o *Outcome) {
	defer func() {
		if r := recover(); r != nil {
			stack := string(debug.Stack())
			frame := repoFrame(stack)
			if frame == "?" {
				// A panic that never touched the code under test is a harness bug.
				panic(fmt.Sprintf("harness panic: %v\n%s", r, stack))
			}
			o = &Outcome{NonTrivial: true, Fail: Failf("panic@"+frame, "panic: %v\n%s", r, stack)}
		}
	}()
	return p.Run(c)
}

// Check runs the property under rapid.
func (p *Prop[C]) Check(t *testing.T) {
	if p.Rule != "" {
		SetExtra(p.Name, "rule", p.Rule)
	}
	rapid.Check(t, func(rt *rapid.T) {
		c := p.Gen(rt)
		raw, err := json.Marshal(c)
		if err != nil {
			panic(fmt.Sprintf("harness: cannot marshal case: %v", err))
		}
		breadcrumb(p.Name, raw)
		seq := caseSeq.Add(1)
		limit := p.CaseLimit
		if limit == 0 {
			limit = 120 * time.Second
		}
		if s := os.Getenv("VERIF_CASE_LIMIT"); s != "" {
			if d, err := time.ParseDuration(s); err == nil {
				limit = d
			}
		}
		timer := time.AfterFunc(limit, func() { watchdog(p.Name, raw, seq, limit) })
		o := p.safeRun(c)
		timer.Stop()
		caseSeq.Add(1)
		p.finish(rt, raw, o)
	})
}

var caseSeq atomic.Int64

func caseFrame(stacks string) string {
	// outermost frame of the code under test in the goroutine that runs the case
	for _, g := range strings.Split(stacks, "\n\n") {
		if !strings.Contains(g, ").safeRun(") || !strings.Contains(g, "verif/vt.") {
			continue
		}
		lines := strings.Split(g, "\n")
		frame := ""
		for _, l := range lines {
			l = strings.TrimSpace(l)
			if strings.HasPrefix(l, "github.com/brimdata/super") {
				if i := strings.LastIndex(l, "("); i > 0 {
					l = l[:i]
				}
				frame = strings.TrimPrefix(l, "github.com/brimdata/super")
			}
		}
		return frame
	}
	return ""
}

// caseState classifies the header of the goroutine that runs the case: "busy" (running/runnable),
// "blocked-for-minutes" (the runtime reports a wait of at least one minute) or "waiting".
func caseState(stacks string) string {
	for _, g := range strings.Split(stacks, "\n\n") {
		if !strings.Contains(g, ").safeRun(") || !strings.Contains(g, "verif/vt.") {
			continue
		}
		head := g
		if i := strings.IndexByte(g, '\n'); i >= 0 {
			head = g[:i]
		}
		switch {
		case strings.Contains(head, "[running") || strings.Contains(head, "[runnable"):
			return "busy"
		case strings.Contains(head, "minutes"):
			return "blocked-for-minutes"
		}
		return "waiting"
	}
	return ""
}

// stackShape reduces a full goroutine dump to "goroutine id: function names" for
// every goroutine that is inside the code under test, without arguments, pcs or
// wait durations.  Two equal shapes some time apart mean that no goroutine was
// created, finished or moved to another function: the case is not progressing.
func stackShape(stacks string) string {
	var out []string
	for _, g := range strings.Split(stacks, "\n\n") {
		if !strings.Contains(g, "github.com/brimdata/super") {
			continue
		}
		lines := strings.Split(g, "\n")
		head := lines[0]
		if i := strings.Index(head, " ["); i > 0 {
			head = head[:i]
		}
		fns := []string{head}
		for _, l := range lines[1:] {
			if strings.HasPrefix(l, "\t") || strings.HasPrefix(l, "created by") {
				continue
			}
			if i := strings.LastIndex(l, "("); i > 0 {
				l = l[:i]
			}
			fns = append(fns, l)
		}
		out = append(out, strings.Join(fns, ";"))
	}
	sort.Strings(out)
	return strings.Join(out, "\n")
}

func dumpStacks() string {
	buf := make([]byte, 4<<20)
	return string(buf[:runtime.Stack(buf, true)])
}

// watchdog fires when one case has been running for `limit`.  It reports a
// hang only with no-progress evidence: three goroutine dumps 20 s apart whose
// shape (which goroutines exist inside the code under test and in which
// functions they are) is identical.  A case that is merely slow (loaded machine,
// long enumeration) creates and finishes goroutines or moves between functions
// and is left to the go test deadline, i.e. inconclusive, never a violation.
func watchdog(name string, raw []byte, seq int64, limit time.Duration) {
	first := dumpStacks()
	f1 := caseFrame(first)
	if os.Getenv("VERIF_DEBUG_WATCHDOG") != "" {
		fmt.Fprintf(os.Stderr, "watchdog fired for %s: frame=%q\n%s\n", name, f1, first)
	}
	if f1 == "" {
		return
	}
	shape := stackShape(first)
	last := first
	spinning := caseState(first) == "busy"
	for i := 0; i < 2; i++ {
		time.Sleep(20 * time.Second)
		if caseSeq.Load() != seq {
			return
		}
		last = dumpStacks()
		if caseFrame(last) != f1 || stackShape(last) != shape {
			return
		}
		if caseState(last) != "busy" {
			spinning = false
		}
	}
	// The same functions can be on the stack because the case calls them again and again (e.g. the repo's
	// HEAD-read back-off).  Require evidence about the case goroutine itself: either it has been blocked
	// continuously for minutes (the runtime prints the wait duration), or it was on CPU in all three dumps.
	if !spinning && caseState(last) != "blocked-for-minutes" {
		return
	}
	if len(last) > 60000 {
		last = last[:60000]
	}
	writeFail(name, Failf("hang@"+f1, "case made no progress for %v (+40s: three identical goroutine shapes) inside %s; goroutines:\n%s", limit, f1, last), raw)
	writeStats()
	fmt.Fprintf(os.Stderr, "VIOLATION sig=hang@%s: no progress for %v\n", f1, limit)
	os.Exit(3)
}

type fataler interface {
	Fatalf(format string, args ...any)
	Logf(format string, args ...any)
}

func (p *Prop[C]) finish(t fataler, raw []byte, o *Outcome) {
	if o.Fail != nil && IsKnown(o.Fail.Sig) {
		// Whole-case failure explained by an open known finding: count it, keep searching.
		o.Known = append(o.Known, o.Fail.Sig)
		o.Fail = nil
		o.NonTrivial = false
	}
	record(p.Name, raw, o)
	if o.Fail != nil {
		writeFail(p.Name, o.Fail, raw)
		t.Fatalf("VIOLATION sig=%s: %s", o.Fail.Sig, o.Fail.Msg)
	}
}

type replayFile struct {
	Test   string          `json:"test"`
	Sig    string          `json:"sig"`
	Expect string          `json:"expect,omitempty"` // "known": must reproduce Sig (or pass); default: must pass
	Case   json.RawMessage `json:"case"`
}

// ReplayDir runs every *.json under dir (non-recursively) through the registered
// properties.  Files whose Expect is "known" are expected to reproduce a
// listed open finding; anything else must pass.
func ReplayDir(t *testing.T, dir string) {
	entries, _ := os.ReadDir(dir)
	for _, e := range entries {
		if e.IsDir() || !strings.HasSuffix(e.Name(), ".json") {
			continue
		}
		path := filepath.Join(dir, e.Name())
		t.Run(strings.TrimSuffix(e.Name(), ".json"), func(t *testing.T) { ReplayFile(t, path) })
	}
}

func ReplayFile(t *testing.T, path string) {
	b, err := os.ReadFile(path)
	if err != nil {
		t.Fatalf("replay: %v", err)
	}
	var rf replayFile
	if err := json.Unmarshal(b, &rf); err != nil {
		t.Fatalf("replay %s: %v", path, err)
	}
	run := registry[rf.Test]
	if run == nil {
		t.Skipf("replay %s: test %q is not in this package", path, rf.Test)
	}
	seq := caseSeq.Add(1)
	limit := 120 * time.Second
	if s := os.Getenv("VERIF_CASE_LIMIT"); s != "" {
		if d, err := time.ParseDuration(s); err == nil {
			limit = d
		}
	}
	timer := time.AfterFunc(limit, func() { watchdog(rf.Test, rf.Case, seq, limit) })
	o, err := run(rf.Case)
	timer.Stop()
	caseSeq.Add(1)
	if err != nil {
		t.Fatalf("replay %s: cannot decode case: %v", path, err)
	}
	name := "replay:" + rf.Test
	if o.Fail != nil && IsKnown(o.Fail.Sig) {
		o.Known = append(o.Known, o.Fail.Sig)
		o.Fail = nil
	}
	record(name, rf.Case, o)
	if o.Fail != nil {
		if outDir != "" {
			fb, _ := json.MarshalIndent(failRecord{Test: rf.Test, Sig: o.Fail.Sig, Msg: o.Fail.Msg, Case: rf.Case}, "", " ")
			os.WriteFile(filepath.Join(outDir, "fail-replay-"+filepath.Base(path)), fb, 0o644)
		}
		t.Fatalf("VIOLATION sig=%s (replay of %s): %s", o.Fail.Sig, path, o.Fail.Msg)
	}
}

// TestReplay is the body of each package's TestReplay: it replays either the
// single file named by VERIF_REPLAY or every file under VERIF_REPLAY_DIR.
func TestReplay(t *testing.T) {
	if f := os.Getenv("VERIF_REPLAY"); f != "" {
		ReplayFile(t, f)
		return
	}
	if d := os.Getenv("VERIF_REPLAY_DIR"); d != "" {
		ReplayDir(t, d)
	}
}
