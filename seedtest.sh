#!/bin/bash
# usage: seedtest.sh <Cnn> <patch.diff> [extra ./check args]   -- run a check against /repo HEAD + patch in a scratch worktree
set -u
P=$1; PATCH=$2; shift 2
WT=/var/tmp/wt-seedtest-$$
git -C /repo worktree add -q --detach $WT HEAD || exit 3
if ! git -C $WT apply $PATCH 2>/dev/null; then
  if ! git -C $WT apply --3way $PATCH; then echo "PATCH DOES NOT APPLY"; git -C /repo worktree remove --force $WT; exit 3; fi
fi
(cd $WT && GOFLAGS=-mod=mod GOPROXY=off go build ./... ) || { echo "BUILD FAILED"; git -C /repo worktree remove --force $WT; exit 3; }
cd /verif && VERIF_REPO=$WT timeout 3000 ./check $P "$@" 2>&1 | grep -E "^VIOLATION|^\[check\] C|sig=" | cut -c1-300 | head -12
rc=${PIPESTATUS[0]}
git -C /repo worktree remove --force $WT
echo "seedtest rc=$rc"
