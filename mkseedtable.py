#!/usr/bin/env python3
"""Regenerate the seeded-change table of DESIGN.md (section 9.6) from /verif/seeded/*/meta.json."""
import glob, json, os, re

NOTES = json.load(open("/verif/seeded/notes.json")) if os.path.exists("/verif/seeded/notes.json") else {}
rows = []
for d in sorted(glob.glob("/verif/seeded/*/")):
    mp = os.path.join(d, "meta.json")
    if not os.path.exists(mp):
        continue
    m = json.load(open(mp))
    sid = os.path.basename(d.rstrip("/"))
    if not m.get("confirmed"):
        status = "not confirmed (" + ("patch no longer applies" if m.get("patch_applies") is False else "see meta.json") + ")"
    else:
        caught = m.get("caught_by") or ([m["property"]] if m.get("caught_by_quick_check") else [])
        status = ", ".join(caught) if caught else "**missed**"
    sigs = (m.get("check_quick") or {}).get("signatures") or []
    note = NOTES.get(sid, "")
    needs = m.get("needs_to_manifest", "").replace("|", "\\|")
    rows.append("| " + sid + " | " + needs + " | " + status + ((" — " + note) if note else "") + " |")
table = "| seeded change | needs, in order to manifest | caught by (quick tier) |\n|---|---|---|\n" + "\n".join(rows)
p = "/verif/DESIGN.md"
s = open(p).read()
a, b = "<!-- seeded-table:begin -->", "<!-- seeded-table:end -->"
if a in s:
    s = s[: s.index(a) + len(a)] + "\n" + table + "\n" + s[s.index(b):]
    open(p, "w").write(s)
print(table)
