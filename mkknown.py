#!/usr/bin/env python3
"""Merge harness/cNN/known.json fragments into /verif/known_findings.json (run by hand, never by a check)."""
import glob, json
out = []
for f in sorted(glob.glob('/verif/harness/c[0-9][0-9]/known.json')):
    out.extend(json.load(open(f)).get("findings", []))
json.dump({"findings": out}, open('/verif/known_findings.json', 'w'), indent=1, ensure_ascii=False)
print("known_findings.json:", len(out), "entries,", sum(1 for e in out if e.get("status") == "open"), "open")
