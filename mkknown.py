#!/usr/bin/env python3
"""Merge harness/cNN/known.json fragments into /verif/known_findings.json (run by hand, never by a check)."""
import glob, json
out = []
for f in sorted(glob.glob('/verif/harness/c[0-9][0-9]/known.json')):
    out.extend(json.load(open(f)).get("findings", []))
import os, tempfile
fd, tmp = tempfile.mkstemp(dir='/verif', prefix='.known_findings.')
with os.fdopen(fd, 'w') as f:
    json.dump({"findings": out}, f, indent=1, ensure_ascii=False)
os.chmod(tmp, 0o644)
os.replace(tmp, '/verif/known_findings.json')  # atomic: running checks never see a partial file
print("known_findings.json:", len(out), "entries,", sum(1 for e in out if e.get("status") == "open"), "open")
