#!/usr/bin/env python3-vt
"""Validate MANIFEST.json and every evidence file against the schemas."""
import json, sys, glob, jsonschema
ok = True
m = json.load(open('/verif/MANIFEST.json'))
jsonschema.validate(m, json.load(open('/root/.vp/MANIFEST.schema.json')))
es = json.load(open('/root/.vp/EVIDENCE.schema.json'))
for c in m['checks']:
    f = c['evidence_file']
    try:
        jsonschema.validate(json.load(open(f)), es)
    except Exception as e:
        ok = False
        print("BAD", f, str(e)[:300])
props = [json.loads(l)['id'] for l in open('/verif/properties.jsonl')]
claimed = {c['property_id'] for c in m['checks']}
na = {x['property_id'] for x in m.get('not_applicable', [])}
for p in props:
    if p not in claimed and p not in na:
        ok = False
        print("UNACCOUNTED", p)
print("ok" if ok else "FAILED", "claimed", len(claimed), "not_applicable", len(na))
sys.exit(0 if ok else 1)
