#!/usr/bin/env python3
"""Confirm a seeded change and run the property's check against it.

usage: seedconfirm.py <Cnn> <seed-out-dir> <demo-dest-dir-in-repo> [--needs "..."] [--skip-root]

Steps (all in a scratch worktree of /repo HEAD outside /repo and /verif, removed afterwards):
  1. copy patch.diff, the demonstration and README into /verif/seeded/<Cnn>-<name>/
  2. apply the patch, go build ./..., run the existing tests of the touched packages plus the lake/compiler/runtime/zio/
     service/zson/vng trees (and the root package unless --skip-root)
  3. run the demonstration with the patch (must fail) and without it (must pass)
  4. run ./check <Cnn> --tier quick against the patched tree (VERIF_REPO) and record its exit code / signatures
  5. write meta.json
"""
import json, os, re, shutil, subprocess, sys, time

ENV = dict(os.environ, GOFLAGS="-mod=mod", GOPROXY="off", GOSUMDB="off", GOTOOLCHAIN="local")


def sh(cmd, cwd=None, timeout=3600):
    t0 = time.time()
    try:
        p = subprocess.run(cmd, cwd=cwd, env=ENV, shell=True, stdout=subprocess.PIPE, stderr=subprocess.STDOUT, timeout=timeout)
        return p.returncode, p.stdout.decode("utf-8", "replace"), time.time() - t0
    except subprocess.TimeoutExpired as e:
        return -9, (e.stdout or b"").decode("utf-8", "replace") + "\n[timeout]", time.time() - t0


def main():
    prop, src, dest = sys.argv[1], sys.argv[2].rstrip("/"), sys.argv[3]
    needs = ""
    if "--needs" in sys.argv:
        needs = sys.argv[sys.argv.index("--needs") + 1]
    skip_root = "--skip-root" in sys.argv or "--full" not in sys.argv
    name = os.path.basename(src)
    out = f"/verif/seeded/{prop}-{name}"
    if os.path.dirname(os.path.abspath(src)) == "/verif/seeded":
        out, name = os.path.abspath(src), name.split("-", 1)[1]
    os.makedirs(out, exist_ok=True)
    demos = [f for f in os.listdir(src) if f.endswith("_test.go")]
    for f in ["patch.diff", "README.md"] + demos:
        if os.path.abspath(src) != os.path.abspath(out) and os.path.exists(os.path.join(src, f)):
            shutil.copy(os.path.join(src, f), os.path.join(out, f if f != "README.md" else "README.seeder.md"))
    also = []
    if "--also" in sys.argv:
        also = sys.argv[sys.argv.index("--also") + 1].split(",")
    wt = f"/var/tmp/wt-seedconfirm-{os.getpid()}"
    meta = dict(property=prop, name=name, needs_to_manifest=needs, demo_files=demos, demo_dir=dest, ran=[])
    rc, o, _ = sh(f"git -C /repo worktree add -q --detach {wt} HEAD")
    head = subprocess.check_output(["git", "-C", "/repo", "rev-parse", "--short", "HEAD"]).decode().strip()
    meta["repo_head"] = head
    try:
        rc, o, _ = sh(f"git apply {src}/patch.diff || git apply --3way {src}/patch.diff", cwd=wt)
        meta["patch_applies"] = rc == 0
        if rc != 0:
            meta["error"] = o[-500:]
            return finish(out, meta)
        touched = subprocess.check_output(["git", "-C", wt, "diff", "--name-only"]).decode().split()
        pkgs = sorted({"./" + os.path.dirname(t) + "/..." for t in touched if t.endswith(".go")})
        rc, o, dt = sh("go build ./...", cwd=wt, timeout=1800)
        meta["build_ok"] = rc == 0
        meta["ran"].append(dict(cmd="go build ./...", rc=rc, wall=round(dt)))
        if rc != 0:
            meta["error"] = o[-800:]
            return finish(out, meta)
        broad = ["./lake/...", "./compiler/...", "./service/..."]
        if "--full" in sys.argv:
            broad += ["./runtime/...", "./zio/...", "./zson/...", "./vng/..."]
        tests = " ".join(sorted(set(pkgs + broad)))
        if not skip_root:
            tests += " ."
        cmd = f"go test -vet=off -count=1 -timeout 40m {tests}"
        rc, o, dt = sh(cmd, cwd=wt, timeout=3000)
        fails = [l for l in o.splitlines() if l.startswith("FAIL") or l.startswith("--- FAIL")]
        meta["ran"].append(dict(cmd=cmd, rc=rc, wall=round(dt), fail_lines=fails[:10]))
        if rc != 0:
            # timing-dependent tests (e.g. TestJournalConcurrent) flake on a loaded machine: re-run the failing packages alone, twice
            bad = sorted({l.split()[1] for l in o.splitlines() if l.startswith("FAIL\t")})
            if bad:
                cmd2 = "go test -vet=off -count=2 -timeout 20m " + " ".join(bad)
                rc, o, dt = sh(cmd2, cwd=wt, timeout=1500)
                meta["ran"].append(dict(cmd=cmd2, rc=rc, wall=round(dt), note="rerun of packages that failed in the broad run"))
        meta["existing_tests_pass"] = rc == 0
        # demo with the patch
        for d in demos:
            shutil.copy(os.path.join(src, d), os.path.join(wt, dest, d))
        run = "|".join(sorted(set(re.findall(r"^func (Test\w+)\(", "\n".join(open(os.path.join(src, d)).read() for d in demos), re.M))))
        dcmd = f"go test -vet=off -count=1 -timeout 20m -run '^({run})$' ./{dest}/"
        rc1, o1, dt1 = sh(dcmd, cwd=wt, timeout=1500)
        meta["demo_with_change"] = dict(cmd=dcmd, rc=rc1, wall=round(dt1), tail=o1[-600:])
        # run the check against the patched tree (demo files removed first: they are not part of the change)
        for d in demos:
            os.remove(os.path.join(wt, dest, d))
        crc, co, cdt = sh(f"VERIF_REPO={wt} timeout 3300 ./check {prop} --tier quick", cwd="/verif", timeout=3400)
        sigs = sorted(set(re.findall(r"sig=(\S+)", co)))
        meta["check_quick"] = dict(rc=crc, wall=round(cdt), signatures=sigs[:8], summary=[l for l in co.splitlines() if l.startswith("[check] " + prop)][-1:])
        meta["also_checked"] = {}
        for other in also:
            orc, oo, odt = sh(f"VERIF_REPO={wt} timeout 3300 ./check {other} --tier quick", cwd="/verif", timeout=3400)
            meta["also_checked"][other] = dict(rc=orc, wall=round(odt), signatures=sorted(set(re.findall(r"sig=(\S+)", oo)))[:8])
        # demo without the patch
        sh("git checkout -- .", cwd=wt)
        for d in demos:
            shutil.copy(os.path.join(src, d), os.path.join(wt, dest, d))
        rc2, o2, dt2 = sh(dcmd, cwd=wt, timeout=1500)
        meta["demo_without_change"] = dict(rc=rc2, wall=round(dt2), tail=o2[-300:])
        meta["confirmed"] = bool(meta["existing_tests_pass"] and rc1 != 0 and rc2 == 0)
        meta["caught_by_quick_check"] = crc == 1
        meta["caught_by"] = [p for p, r in [(prop, crc)] + [(k, v["rc"]) for k, v in meta["also_checked"].items()] if r == 1]
    finally:
        sh(f"git -C /repo worktree remove --force {wt}")
    return finish(out, meta)


def finish(out, meta):
    json.dump(meta, open(os.path.join(out, "meta.json"), "w"), indent=1, ensure_ascii=False)
    print(json.dumps({k: meta.get(k) for k in ("property", "name", "patch_applies", "build_ok", "existing_tests_pass", "confirmed", "caught_by_quick_check")}), flush=True)
    print("   check:", meta.get("check_quick", {}).get("signatures"), meta.get("check_quick", {}).get("summary"), flush=True)


if __name__ == "__main__":
    main()
