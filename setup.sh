#!/bin/sh
# Warm the go build cache for the harness (offline; builds from files on disk only).
export GOFLAGS=-mod=mod GOPROXY=off GOSUMDB=off GOTOOLCHAIN=local
cd /verif/harness || exit 1
mkdir -p /var/tmp/verif-scratch
go build ./... || exit 1
go test -tags verif -vet=off -count=1 -run '^$' ./... >/dev/null 2>&1
exit 0
